#!/usr/bin/env python3
"""Rewrites the block between <!-- figures:start --> and <!-- figures:end --> in DESIGN.md from evidence/*.json."""
import json, glob, os, re
V = os.path.dirname(os.path.abspath(__file__))
rows = []
for f in sorted(glob.glob(os.path.join(V, "evidence", "C*.json"))):
    d = json.load(open(f)); c = d["coverage"]
    def sci(x):
        x = int(x)
        if x < 100000: return str(x)
        e = len(str(x)) - 1
        return "%.2g·10^%d" % (x / 10**e, e)
    rows.append("| %s | %s | %s | %s | %.0f s | %d |" % (d["property_id"], d.get("tier", "?"), sci(c["evaluations"]), sci(c["distinct_nontrivial"]), d.get("wall_s", 0.0), (d.get("violations") if isinstance(d.get("violations"), int) else len(d.get("violations") or []))))
block = "<!-- figures:start -->\n| id | tier | evaluations | distinct non-trivial | wall | violations |\n|----|------|-------------|----------------------|------|------------|\n" + "\n".join(rows) + "\n<!-- figures:end -->"
p = os.path.join(V, "DESIGN.md")
s = open(p).read()
if "<!-- figures:start -->" in s:
    s = re.sub(r"<!-- figures:start -->.*?<!-- figures:end -->", lambda m: block, s, flags=re.S)
    open(p, "w").write(s)
    print("figures block rewritten:", len(rows), "rows")
else:
    print(block)
