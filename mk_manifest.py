#!/usr/bin/env python3
"""Regenerates MANIFEST.json from the table below (kept in one place so that it always validates)."""
import json, subprocess, os
V = os.path.dirname(os.path.abspath(__file__))

def repo_hook_commits():
    try:
        out = subprocess.check_output(["git", "-C", "/repo", "log", "--format=%H %s"], text=True)
        return [l.split()[0] for l in out.splitlines() if "verif hook" in l]
    except Exception:
        return []

CHECKS = {
 # id: (engine, technique, level text, level note, design_ref)
 "C03": ("enumerator", "enumeration of payload lengths and truncation lengths + generated near-misses against a reference acceptance predicate (own bitwise CRC-24Q)",
         "Generated-input exploration: every payload length 0..=1023 and every truncation length enumerated, payload contents and near-miss perturbations sampled; decides acceptance, reported attributes and error kinds against an independent predicate. Absence of counter-examples is not proven for payload contents.",
         "trusts the harness' bitwise CRC-24Q (self-checked against the catalogue check value and the repository's golden frames)", "§3 C03"),
 "C04": ("enumerator", "fault enumeration: bit flips / pairs / odd-weight / bursts<=24 on valid frames, oracle = reference predicate + reference scanner",
         "Fault enumeration over error patterns on a pool of valid frames (all golden frames, random frames of edge and sampled lengths): all single bits, all pairs on short frames, sampled pairs/odd weights, bursts of every length 2..=24. The all-pairs/all-bursts guarantee for every frame is mathematical; this samples it.",
         "damage restricted to reserved bits, payload and checksum as the statement says", "§3 C04"),
 "C05": ("proptest", "property-based testing (proptest): generated segment streams against a reference scanner model, with shrinking",
         "Model-based exploration: proptest-generated multi-segment buffers, all 65536 header patterns, streams beyond 64 KiB and noisy stretches (hundreds of rejected candidates, more than 64 KiB of rejected candidate bytes) compared with a reference scanner transcribed from the statement (consumed count, frame range, dead-byte invariant, iterator sequence through next and 13 adaptors, termination).",
         "reference scanner and CRC are the harness' own", "§3 C05"),
 "C06": ("proptest", "stateful property-based testing (proptest): generated streams x chunk schedules, caller-loop history compared with one-shot scan and reference model",
         "Model-based exploration of histories: the documented caller loop is run over generated chunk schedules (one-byte chunks, cuts inside preamble/length/payload/CRC, empty chunks) and compared with one-shot scanning and the reference model; long and noisy streams fed in small, 4 KiB and 64 KiB pieces.",
         "caller behaviour modelled as in the statement: drop consumed bytes, append new data, rescan until no frame", "§3 C06"),
 "C13": ("enumerator", "enumeration of payload lengths x generated suffixes, with/without-suffix differential + reference message number",
         "Generated-input exploration: all payload lengths 0..=1023 and all golden frames, each with generated suffixes; all observable attributes compared with and without suffix (also through scanner and iterator, from another slice position, with suffixes reaching multiples of 64 KiB) and the message number against the first 12 payload bits.",
         "frames built by the harness' own framing code", "§3 C13"),
 "C14": ("enumerator", "exhaustive enumeration of the 4096 message numbers x payload shapes against the repository's own table/feature lists",
         "Exhaustive over message numbers (4096) x payload shapes x {suffix, no suffix}; payload contents sampled. Supported set cross-checked between message table, msgNNNN features and all_msgs.",
         "harness built with default features (all_msgs)", "§3 C14"),
 "C07": ("enumerator", "enumeration of (carrier, width, offset, background, value) against a reference one-bit-at-a-time packer/reader (hook)",
         "Generated-input exploration close to exhaustive on the small dimensions: all 12 carriers x all widths x all 8 alignments (thorough: offsets 0..=71) x 3 backgrounds x all values for narrow fields / boundary, one-hot and random values for wide ones, plus every overrunning (offset,width) on 1..3-byte buffers.",
         "needs the cfg(rtcm_rs_verif) re-export; hook adds no behaviour", "§3 C07"),
 "C08": ("enumerator", "exhaustive enumeration of all 2^w bit patterns per data field (w<=30 quick, w<=32 thorough) with a decode->encode identity oracle through an own bit reader/writer (hook), encoding over 0xFF- and 0x00-filled buffers",
         "Exhaustive for every field up to the width bound (quick 30 bits: 266 of 309 fields, thorough 32 bits: 300 of 309 fields); boundary windows, one-hot and large random samples for wider fields backed by the error-bound argument in DESIGN.md; hand-written bias codecs enumerated completely through frames; MSM frames with random patterns and a dictionary of domain constants over every faithful bit window of the all-zero golden frames at message level.",
         "needs the hook; the list of sign-magnitude fields is pinned from the standard", "§3 C08"),
 "C11": ("sampler", "stratified generation of real inputs between adjacent grid points per float field, oracle = neighbour membership + half-step bound with derived float slack + monotonicity (hook); bias lists in arbitrary caller order and position independence inside full list messages, both through messages; run against the crate built with and without its std feature",
         "Generated-input exploration over all float-typed fields: grid indexes at range ends, zero, powers of two and random; 16 interpolation points per interval including both sides of the half step; bias lists in caller order; position independence inside full-length list messages. Tolerance derived from the rounding steps, not tuned.",
         "needs the hook; grid = decoder image of consecutive patterns", "§3 C11"),
 "C02": ("generators+enumerator", "structure-aware frame generation (golden, the crate's generator, synthesiser incl. hostile MSM/bias/text/count structures, havoc mutation) with a totality/finiteness oracle in catch_unwind, both build profiles",
         "Generated-input exploration of the decoder for every supported message number and sampled unsupported ones, plus raw multi-frame streams; run in the optimised and the optimised+overflow-checks profile. A watchdog timeout is inconclusive (exit 2), never a violation.",
         "frames are framed by the harness with its own CRC; the crate's generator is only a seed source", "§3 C02"),
 "C09": ("proptest+enumerator", "property-based testing (proptest recipes over the serde value tree, shrinking) + systematic single-leaf extreme-value sweep + hostile typed constructors, oracle = independent frame parser in catch_unwind, both build profiles",
         "Generated-input exploration of the encoder over all supported types: type-directed mutations reach out-of-range, NaN/inf, full lists, inconsistent satellite/signal sets; every numeric leaf of two bases per type is set to 15 extreme values; both build profiles.",
         "all values constructed through public fields/constructors (serde is the construction vehicle only)", "§3 C09"),
 "C01": ("proptest+generators", "property-based testing (proptest recipes over the serde value tree, shrinking) for the encoder side + structure-aware frame generators for the decoder side; oracle = round trip / normal form / fixed point",
         "Generated-input exploration over all supported types: (A) accepted messages decode to their own variant and re-encode byte-identically under the stated precondition (evaluated on the input), (B) decoded messages accepted by the encoder are fixed points up to 1059/1065 group order; (A') the one-hot / low-mask grid values of every float field, computed from the field resolutions, in every float leaf.",
         "precondition predicate uses SSR signal tables pinned in the harness; only decoded messages are compared with ==", "§3 C01"),
 "C12": ("proptest", "stateful property-based testing (proptest): generated build-call histories over a pool of messages, fresh-builder differential at every step, shrinking of the history; systematic sandwich [T,U,T], retry and residue-probe histories; thorough tier adds a coverage-guided libFuzzer target (builder_history) with the same oracle",
         "Model-based exploration of builder histories: pool of ~2600 messages (every type, every list filled to capacity, refused-early and refused-late messages), histories of up to 12 calls plus target (half of them with the target or a same-type neighbour also earlier in the history), every accepted message sandwiched around every refused one; the reused builder must match a fresh builder at every step.",
         "error kinds not compared", "§3 C12"),
 "C20": ("proptest+generators", "property-based testing (proptest recipes, shrinking) + decoded generated frames; oracle = serialize/deserialize identity through an own self-describing value model and serde_json::Value",
         "Generated-input exploration over all supported types plus the wire-less variants; exact in-memory data models (no text format); lists reversed / rotated / with repeated elements must survive unchanged.",
         "NaN-carrying messages are outside the property", "§3 C20"),
 "C10": ("enumerator+sampler", "exhaustive small scopes + random shapes of (S,G,C) with a bit-level standard-layout model as oracle, permutation metamorphic relation, single-defect error-class table; thorough tier adds a coverage-guided libFuzzer target (msm_masks) with the same oracle",
         "Generated-input exploration over all 49 MSM types: small scopes enumerated completely, random shapes up to 64 cells; the encoder's frame must equal a frame laid out by an independent model of the standard whatever the input order; each invalid class must give its own error.",
         "MSM layouts and signal tables pinned in the harness from the standard", "§3 C10"),
 "C15": ("enumerator", "enumeration of every (type, n<=capacity), every over-capacity count value and every truncation length; oracle = wire count via pinned layout + round-trip equality + Corrupt",
         "Enumeration, complete over element counts, over-capacity count values and truncation lengths for 39 list/string-bearing types; element contents sampled from decoded vectors.",
         "count-field layouts pinned in the harness", "§3 C15"),
 "C16": ("sampler", "typed generation of bias lists (distinct pairs scattered, 1..64 satellites, up to 390 entries, on/off grid) with a multiset/grouping oracle, plus hostile frames with a capacity oracle; thorough tier adds a coverage-guided libFuzzer target (bias_lists) with the same oracle; the generated check runs against the crate built with and without its std feature",
         "Generated-input exploration of the three hand-written bias list codecs under and outside the stated precondition; bias grid taken from the decoder's image of all patterns.",
         "SSR signal tables pinned in the harness", "§3 C16"),
 "C17": ("proptest", "property-based testing (proptest string strategies with shrinking) against reference char/byte mappings, message round trips and 1029 frames with arbitrary text bytes; thorough tier adds a coverage-guided libFuzzer target (text_fields) with the same oracles",
         "Generated-input exploration over Unicode strings clustered around the capacities, util types for several N, all descriptor-bearing messages and 1029.",
         "reference mapping computed with std primitives", "§3 C17"),
 "C18": ("enumerator", "exhaustive enumeration of descriptors (7 x 256 bands x 256 Latin-1 attributes) and of all recognised triples against a pinned standard table, wire observation through one-cell MSM1 messages",
         "Exhaustive over the Latin-1 descriptor space and over all triples of recognised descriptors; other characters and mixed triples sampled.",
         "signal tables typed from RTCM 10403.3 in the harness", "§3 C18"),
 "C19": ("configuration enumerator", "enumeration of build configurations (every single feature, empty, all_msgs without std, serde variants) with a build oracle and a differential decode oracle against the full build on generated frames",
         "Exhaustive over the single-feature configurations for the build half (cargo check without default features => #![no_std]) and for the behavioural half (driver linked against the single-feature build decodes a generated frame file; own type identical to the full build - rendering of the decoded message and the bytes of encoding it again -, everything else MsgNotSupported; the same through that build's MsgFrameIter and chunked caller loop).",
         "no bare-metal target installed: no_std is checked for the host triple; dependencies pinned by /repo/Cargo.lock", "§3 C19"),
}
PENDING = {}
def load_pending():
    props = [json.loads(l) for l in open(os.path.join(V, "properties.jsonl"))]
    return [p["id"] for p in props if p["id"] not in CHECKS]

man = {
 "version": 1,
 "setup_cmd": "./setup",
 "hooks": {
   "guard": "--cfg rtcm_rs_verif",
   "enable": "RUSTFLAGS='--cfg rtcm_rs_verif' (set by ./run and harness/.cargo/config.toml); exposes rtcm_rs::verif_hook::{Assembler, Parser, bit_value, dfs}",
   "baseline_off_cmd": "cd /repo && cargo test --workspace --no-fail-fast --offline",
   "source_commits": repo_hook_commits(),
   "add_only": True,
 },
 "engines": [
   {"name": "featdrv", "path": "featdrv", "serves_properties": ["C19"], "kind_free_text": "per-feature decode driver crate built by the C19 check with `--features rtcm-rs/msgNNNN` (rtcm-rs without default features)"},
   {"name": "vcheck", "path": "harness", "serves_properties": sorted(CHECKS.keys()),
    "kind_free_text": "Rust harness (path dependency on /repo): proptest 1.11 used as a library (sharded runners, fixed seeds, shrinking), exhaustive/seeded enumerators on rayon, independent reference models (CRC-24Q, bit reader/writer, frame predicate, stream scanner, serde value tree)"},
 ],
 "checks": [],
 "notes": "All commands run from /verif. ./run <id> quick|thorough rebuilds the harness against /repo's working tree with the hook cfg on (cargo fingerprints the path dependency), replays the saved failing inputs of earlier findings (regressions/<id>/), runs the generated-input check and, in the thorough tier, the libFuzzer campaigns (fuzz/campaign). VERIF_SEED seeds every generator. Exit 0 held, 1 VIOLATION line printed, 2 infrastructure/inconclusive (build failure, watchdog, non-reproducing fuzz artefact) - never a violation. known_findings.txt: nine findings, all fixed in /repo by fix: commits, none open. seeded/: 183 independently written changes (ten rounds and a last four) that break a property while passing the test suite, with the checks that catch them (DESIGN.md section 10); ./run_noevidence is the evidence-free runner used with them.",
 "not_applicable": [],
}
for cid in sorted(CHECKS):
    eng, tech, text, note, ref = CHECKS[cid]
    man["checks"].append({
      "property_id": cid,
      "quick_cmd": f"./run {cid} quick",
      "thorough_cmd": f"./run {cid} thorough",
      "evidence_file": f"/verif/evidence/{cid}.json",
      "replay_cmd_template": f"./run {cid} quick --replay {{path}}",
      "engine": eng,
      "level_claimed": {"category": "exploration", "text": text, "design_ref": ref},
      "level_note": note,
      "technique": tech,
    })
for pid in load_pending():
    man["not_applicable"].append({"property_id": pid, "reason": PENDING.get(pid, "check designed (DESIGN.md §3) but not yet built in this commit; not claimed until it runs")})
json.dump(man, open(os.path.join(V, "MANIFEST.json"), "w"), indent=1)
print("checks:", len(man["checks"]), "not_applicable:", len(man["not_applicable"]))
