#![no_main]
//! Coverage-guided target `msm_masks`: the semantic oracles live in vcommon::fuzzglue (never crash-only).
use libfuzzer_sys::fuzz_target;

fuzz_target!(|data: &[u8]| {
    let findings = vcommon::fuzzglue::run_target_tolerant("msm_masks", data);
    if let Some((prop, sig, msg, _)) = findings.first() {
        // open known findings are tolerated in-target (see run_target_tolerant); strict judging is done by vcheck fuzz-replay
        panic!("ORACLE-VIOLATION property={} signature={} {}", prop, sig, msg);
    }
});
