// parent crate required by cargo-fuzz; intentionally empty
