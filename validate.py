#!/usr/bin/env python3-vt
"""Validates MANIFEST.json and every evidence/*.json against the schemas in /root/.vp."""
import json, glob, sys, jsonschema
ok = True
ms = json.load(open('/root/.vp/MANIFEST.schema.json'))
es = json.load(open('/root/.vp/EVIDENCE.schema.json'))
try:
    jsonschema.validate(json.load(open('/verif/MANIFEST.json')), ms)
    print("MANIFEST.json valid")
except Exception as e:
    ok = False; print("MANIFEST.json INVALID:", str(e)[:300])
for f in sorted(glob.glob('/verif/evidence/*.json')):
    try:
        jsonschema.validate(json.load(open(f)), es)
        d = json.load(open(f))
        print(f, "valid", d["tier"], "eval=%d distinct=%d wall=%.1fs" % (d["coverage"]["evaluations"], d["coverage"]["distinct_nontrivial"], d["wall_s"]))
    except Exception as e:
        ok = False; print(f, "INVALID:", str(e)[:300])
sys.exit(0 if ok else 1)
