//! Reads a frame file (one frame per line: hex TAB anything) and prints, per frame, the Debug rendering of the
//! decoded message as this single-feature build of rtcm-rs sees it.
use rtcm_rs::prelude::*;
use std::io::{BufRead, Write};

fn unhex(s: &str) -> Vec<u8> {
    (0..s.len() / 2).filter_map(|i| u8::from_str_radix(&s[2 * i..2 * i + 2], 16).ok()).collect()
}

fn main() {
    let path = std::env::args().nth(1).expect("frame file");
    let f = std::fs::File::open(path).expect("open frame file");
    let out = std::io::stdout();
    let mut out = std::io::BufWriter::new(out.lock());
    for line in std::io::BufReader::new(f).lines() {
        let line = line.unwrap();
        let hex = line.split('\t').next().unwrap_or("");
        let bytes = unhex(hex);
        match MessageFrame::new(&bytes) {
            Ok(mf) => {
                let m = mf.get_message();
                writeln!(out, "{:?}", m).unwrap();
            }
            Err(e) => writeln!(out, "FRAME-ERROR {:?}", e).unwrap(),
        }
    }
}
