//! Reads a frame file (one frame per line: hex TAB anything) and prints, per frame, the Debug rendering of the
//! decoded message as this single-feature build of rtcm-rs sees it and, for typed messages, the frame this build produces
//! when it encodes that message again. Then the same frames are run through the stream
//! API of this build (all frames concatenated: once through MsgFrameIter, once through the documented caller loop with
//! small chunks) and two verdict lines say whether the stream passes deliver the same renderings in the same order.
use rtcm_rs::prelude::*;
use std::io::{BufRead, Write};

fn unhex(s: &str) -> Vec<u8> {
    (0..s.len() / 2).filter_map(|i| u8::from_str_radix(&s[2 * i..2 * i + 2], 16).ok()).collect()
}

/// Debug rendering; for typed messages also the frame this build produces when it encodes the decoded message again
fn render(m: &Message) -> String {
    match m {
        Message::Empty | Message::Corrupt | Message::MsgNotSupported(_) => format!("{:?}", m),
        _ => {
            let mut b = MessageBuilder::new();
            let re = match b.build_message(m) {
                Ok(f) => f.iter().map(|x| format!("{:02x}", x)).collect::<String>(),
                Err(_) => "ERR".to_string(),
            };
            format!("{:?}\t{}", m, re)
        }
    }
}

fn verdict(name: &str, got: &[String], want: &[String]) -> String {
    if got == want {
        return format!("{} same {}", name, got.len());
    }
    let i = got.iter().zip(want.iter()).position(|(a, b)| a != b).unwrap_or(got.len().min(want.len()));
    let cut = |s: Option<&String>| s.map(|s| s.chars().take(100).collect::<String>()).unwrap_or_else(|| "<nothing>".to_string());
    format!("{} differs: {} items instead of {}; item {}: `{}` instead of `{}`", name, got.len(), want.len(), i, cut(got.get(i)), cut(want.get(i)))
}

fn main() {
    let path = std::env::args().nth(1).expect("frame file");
    let f = std::fs::File::open(path).expect("open frame file");
    let out = std::io::stdout();
    let mut out = std::io::BufWriter::new(out.lock());
    let mut per_frame: Vec<String> = Vec::new();
    let mut stream: Vec<u8> = Vec::new();
    for line in std::io::BufReader::new(f).lines() {
        let line = line.unwrap();
        let hex = line.split('\t').next().unwrap_or("");
        let bytes = unhex(hex);
        match MessageFrame::new(&bytes) {
            Ok(mf) => {
                let m = mf.get_message();
                let s = render(&m);
                writeln!(out, "{}", s).unwrap();
                per_frame.push(s);
                stream.extend_from_slice(&bytes);
            }
            Err(e) => writeln!(out, "FRAME-ERROR {:?}", e).unwrap(),
        }
    }
    // one shot through the iterator
    let mut it = MsgFrameIter::new(&stream);
    let oneshot: Vec<String> = (&mut it).map(|mf| render(&mf.get_message())).collect();
    writeln!(out, "{}", verdict("STREAM-ONESHOT", &oneshot, &per_frame)).unwrap();
    // the caller loop: append a chunk, take frames until none, drop what was consumed
    let sizes = [5usize, 1, 9, 64, 3, 700, 2, 17, 6, 1200];
    let mut chunked: Vec<String> = Vec::new();
    let mut buf: Vec<u8> = Vec::new();
    let mut pos = 0usize;
    let mut k = 0usize;
    while pos < stream.len() {
        let n = sizes[k % sizes.len()].min(stream.len() - pos);
        k += 1;
        buf.extend_from_slice(&stream[pos..pos + n]);
        pos += n;
        loop {
            let (consumed, frame) = next_msg_frame(&buf);
            let had = match frame {
                Some(mf) => {
                    chunked.push(render(&mf.get_message()));
                    true
                }
                None => false,
            };
            buf.drain(..consumed.min(buf.len()));
            if !had {
                break;
            }
        }
    }
    writeln!(out, "{}", verdict("STREAM-CHUNKED", &chunked, &per_frame)).unwrap();
}
