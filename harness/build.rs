// Scans the repository under test (RTCM_REPO, default /repo) and generates the registries the checks need:
//   * the message table (feature, variant, number) from src/msg/message.rs
//   * the df! field list (id, data type, carrier, width, optional?) from src/df/dfs.rs
//   * the feature list from Cargo.toml (for C14/C19)
// Nothing is hard-coded: a row added to or removed from the repository changes the registries.
use std::fmt::Write as _;
use std::{env, fs, path::PathBuf};

fn strip_line_comments(s: &str) -> String {
    let mut out = String::with_capacity(s.len());
    for line in s.lines() {
        let l = match line.find("//") {
            Some(i) => &line[..i],
            None => line,
        };
        out.push_str(l);
        out.push('\n');
    }
    out
}

fn main() {
    let repo = env::var("RTCM_REPO").unwrap_or_else(|_| "/repo".to_string());
    println!("cargo:rerun-if-env-changed=RTCM_REPO");
    println!("cargo:rerun-if-changed={}/src/msg/message.rs", repo);
    println!("cargo:rerun-if-changed={}/src/df/dfs.rs", repo);
    println!("cargo:rerun-if-changed={}/Cargo.toml", repo);
    println!("cargo:rerun-if-changed=build.rs");
    println!("cargo:rustc-check-cfg=cfg(rtcm_rs_verif)");

    let mut out = String::new();

    // ---- message table ----
    let msg_src = strip_line_comments(
        &fs::read_to_string(format!("{}/src/msg/message.rs", repo)).expect("message.rs"),
    );
    // rows look like:  "msg1001": Msg1001(msg1001) = 1001,
    let mut rows: Vec<(String, String, String, u16)> = Vec::new();
    let inv = msg_src.rfind("message!(").expect("message!( invocation");
    let body = &msg_src[inv..];
    for line in body.lines() {
        let l = line.trim();
        if !l.starts_with('"') {
            continue;
        }
        // "feat": Variant(module) = number
        let parts: Vec<&str> = l.split('"').collect();
        if parts.len() < 3 {
            continue;
        }
        let feat = parts[1].to_string();
        let rest = parts[2].trim_start_matches(':').trim();
        let open = match rest.find('(') {
            Some(i) => i,
            None => continue,
        };
        let close = rest.find(')').unwrap();
        let variant = rest[..open].trim().to_string();
        let module = rest[open + 1..close].trim().to_string();
        let num: String = rest[close + 1..]
            .chars()
            .filter(|c| c.is_ascii_digit())
            .collect();
        let num: u16 = num.parse().expect("row number");
        rows.push((feat, variant, module, num));
    }
    assert!(!rows.is_empty(), "no message rows found");
    writeln!(out, "pub const MSG_TABLE: &[MsgRow] = &[").unwrap();
    for (f, v, m, n) in &rows {
        writeln!(
            out,
            "    MsgRow {{ feature: {:?}, variant: {:?}, module: {:?}, number: {} }},",
            f, v, m, n
        )
        .unwrap();
    }
    writeln!(out, "];").unwrap();
    writeln!(
        out,
        "pub fn default_message(number: u16) -> Option<rtcm_rs::Message> {{\n    match number {{"
    )
    .unwrap();
    for (_, v, _, n) in &rows {
        writeln!(
            out,
            "        {} => Some(rtcm_rs::Message::{}(Default::default())),",
            n, v
        )
        .unwrap();
    }
    writeln!(out, "        _ => None,\n    }}\n}}").unwrap();
    // variant name of a message (independent of Debug): match on the enum
    writeln!(
        out,
        "pub fn variant_name(m: &rtcm_rs::Message) -> &'static str {{\n    #[allow(unreachable_patterns)]\n    match m {{"
    )
    .unwrap();
    for (_, v, _, _) in &rows {
        writeln!(out, "        rtcm_rs::Message::{}(_) => {:?},", v, v).unwrap();
    }
    writeln!(
        out,
        "        rtcm_rs::Message::Empty => \"Empty\",\n        rtcm_rs::Message::Corrupt => \"Corrupt\",\n        rtcm_rs::Message::MsgNotSupported(_) => \"MsgNotSupported\",\n        _ => \"?\",\n    }}\n}}"
    )
    .unwrap();

    // ---- df! fields ----
    let df_src = strip_line_comments(
        &fs::read_to_string(format!("{}/src/df/dfs.rs", repo)).expect("dfs.rs"),
    );
    let mut fields: Vec<(String, String, String, u32, bool)> = Vec::new();
    let mut pos = 0usize;
    while let Some(i) = df_src[pos..].find("df!(") {
        let start = pos + i + 4;
        let end = start + df_src[start..].find(");").expect("df! end");
        let blk = &df_src[start..end];
        let mut id = None;
        let mut dt = None;
        let mut it = None;
        let mut len = None;
        let mut has_inv = false;
        for item in blk.split(',') {
            let item = item.trim();
            if let Some((k, v)) = item.split_once(':') {
                let k = k.trim();
                let v = v.trim();
                match k {
                    "id" => id = Some(v.to_string()),
                    "dt" => dt = Some(v.to_string()),
                    "it" => it = Some(v.to_string()),
                    "len" => len = Some(v.parse::<u32>().expect("len")),
                    "inv" => has_inv = true,
                    _ => {}
                }
            }
        }
        fields.push((
            id.expect("id"),
            dt.expect("dt"),
            it.expect("it"),
            len.expect("len"),
            has_inv,
        ));
        pos = end;
    }
    assert!(!fields.is_empty(), "no df! fields found");
    let mut fout = String::new();
    writeln!(fout, "macro_rules! for_each_df_field {{\n    ($m:ident) => {{\n        $m! {{").unwrap();
    for (id, dt, it, len, inv) in &fields {
        writeln!(
            fout,
            "            ({}, {}, {}, {}, {}),",
            id,
            dt,
            it,
            len,
            if *inv { "inv" } else { "ord" }
        )
        .unwrap();
    }
    writeln!(fout, "        }}\n    }};\n}}").unwrap();
    fs::write(PathBuf::from(env::var("OUT_DIR").unwrap()).join("fields_list.rs"), fout).unwrap();

    // ---- features from Cargo.toml ----
    let cargo = fs::read_to_string(format!("{}/Cargo.toml", repo)).expect("Cargo.toml");
    let mut feats: Vec<String> = Vec::new();
    let mut all_msgs: Vec<String> = Vec::new();
    let mut in_features = false;
    let mut in_all = false;
    for line in cargo.lines() {
        let l = line.trim();
        if l.starts_with('[') {
            in_features = l == "[features]";
            in_all = false;
            continue;
        }
        if !in_features {
            continue;
        }
        if in_all {
            if l.starts_with(']') {
                in_all = false;
                continue;
            }
            for tok in l.split(',') {
                let t = tok.trim().trim_matches('"');
                if !t.is_empty() {
                    all_msgs.push(t.to_string());
                }
            }
            continue;
        }
        if let Some((k, v)) = l.split_once('=') {
            let k = k.trim();
            let v = v.trim();
            if k == "all_msgs" {
                in_all = !v.contains(']');
                for tok in v.trim_start_matches('[').trim_end_matches(']').split(',') {
                    let t = tok.trim().trim_matches('"');
                    if !t.is_empty() {
                        all_msgs.push(t.to_string());
                    }
                }
            } else if k.starts_with("msg") {
                feats.push(k.to_string());
            }
        }
    }
    writeln!(out, "pub const CARGO_MSG_FEATURES: &[&str] = &{:?};", feats).unwrap();
    writeln!(out, "pub const CARGO_ALL_MSGS: &[&str] = &{:?};", all_msgs).unwrap();
    writeln!(out, "pub const REPO_PATH: &str = {:?};", repo).unwrap();

    let dest = PathBuf::from(env::var("OUT_DIR").unwrap()).join("registry.rs");
    fs::write(dest, out).unwrap();
}
