//! MSM reference model typed from RTCM 10403.3 (not from the source): signal-mask positions per constellation,
//! header / satellite / signal data layouts of MSM1..MSM7, a bit-level synthesiser and a wire reader.
use crate::bits::{get_bits, BitW};
use crate::value::{Step, Value};

#[derive(Clone, Copy, Debug, PartialEq, Eq, Hash)]
pub enum Cons {
    Gps,
    Glo,
    Gal,
    Sbas,
    Qzss,
    Bds,
    Navic,
}
pub const ALL_CONS: [Cons; 7] = [Cons::Gps, Cons::Glo, Cons::Gal, Cons::Sbas, Cons::Qzss, Cons::Bds, Cons::Navic];

impl Cons {
    pub fn base(self) -> u16 {
        match self {
            Cons::Gps => 1070,
            Cons::Glo => 1080,
            Cons::Gal => 1090,
            Cons::Sbas => 1100,
            Cons::Qzss => 1110,
            Cons::Bds => 1120,
            Cons::Navic => 1130,
        }
    }
    pub fn name(self) -> &'static str {
        match self {
            Cons::Gps => "gps",
            Cons::Glo => "glo",
            Cons::Gal => "gal",
            Cons::Sbas => "sbas",
            Cons::Qzss => "qzss",
            Cons::Bds => "bds",
            Cons::Navic => "navic",
        }
    }
    pub fn of_number(n: u16) -> Option<(Cons, u8)> {
        for c in ALL_CONS {
            if n > c.base() && n <= c.base() + 7 {
                return Some((c, (n - c.base()) as u8));
            }
        }
        None
    }
    /// (signal-mask position 1..32, RINEX band, RINEX attribute) — RTCM 10403.3 MSM signal tables
    /// (GPS 3.5-91, GLONASS 3.5-96, Galileo 3.5-99, SBAS 3.5-102, QZSS 3.5-105, BeiDou 3.5-108 incl. the B1C/B2a/B2b
    /// amendment, NavIC/IRNSS).
    pub fn table(self) -> &'static [(u8, u8, char)] {
        match self {
            Cons::Gps => &[
                (2, 1, 'C'), (3, 1, 'P'), (4, 1, 'W'), (8, 2, 'C'), (9, 2, 'P'), (10, 2, 'W'), (15, 2, 'S'), (16, 2, 'L'), (17, 2, 'X'),
                (22, 5, 'I'), (23, 5, 'Q'), (24, 5, 'X'), (30, 1, 'S'), (31, 1, 'L'), (32, 1, 'X'),
            ],
            Cons::Glo => &[(2, 1, 'C'), (3, 1, 'P'), (8, 2, 'C'), (9, 2, 'P')],
            Cons::Gal => &[
                (2, 1, 'C'), (3, 1, 'A'), (4, 1, 'B'), (5, 1, 'X'), (6, 1, 'Z'), (8, 6, 'C'), (9, 6, 'A'), (10, 6, 'B'), (11, 6, 'X'), (12, 6, 'Z'),
                (14, 7, 'I'), (15, 7, 'Q'), (16, 7, 'X'), (18, 8, 'I'), (19, 8, 'Q'), (20, 8, 'X'), (22, 5, 'I'), (23, 5, 'Q'), (24, 5, 'X'),
            ],
            Cons::Sbas => &[(2, 1, 'C'), (22, 5, 'I'), (23, 5, 'Q'), (24, 5, 'X')],
            Cons::Qzss => &[
                (2, 1, 'C'), (9, 6, 'S'), (10, 6, 'L'), (11, 6, 'X'), (15, 2, 'S'), (16, 2, 'L'), (17, 2, 'X'), (22, 5, 'I'), (23, 5, 'Q'), (24, 5, 'X'),
                (30, 1, 'S'), (31, 1, 'L'), (32, 1, 'X'),
            ],
            Cons::Bds => &[
                (2, 2, 'I'), (3, 2, 'Q'), (4, 2, 'X'), (8, 6, 'I'), (9, 6, 'Q'), (10, 6, 'X'), (14, 7, 'I'), (15, 7, 'Q'), (16, 7, 'X'),
                (22, 5, 'D'), (23, 5, 'P'), (24, 5, 'X'), (25, 7, 'D'), (30, 1, 'D'), (31, 1, 'P'), (32, 1, 'X'),
            ],
            Cons::Navic => &[(8, 9, 'A'), (22, 5, 'A')],
        }
    }
    pub fn pos_of(self, band: u8, attr: char) -> Option<u8> {
        self.table().iter().find(|(_, b, a)| *b == band && *a == attr).map(|(p, _, _)| *p)
    }
    pub fn desc_of(self, pos: u8) -> Option<(u8, char)> {
        self.table().iter().find(|(p, _, _)| *p == pos).map(|(_, b, a)| (*b, *a))
    }
}

/// bits between the message number and the satellite mask: station 12, epoch 30, multiple-message 1, IODS 3,
/// reserved 7, clock steering 2, external clock 2, smoothing indicator 1, smoothing interval 3
pub const HEADER_REST_BITS: usize = 61;
pub const SAT_MASK_AT: usize = 73;
pub const SIG_MASK_AT: usize = 137;
pub const CELL_MASK_AT: usize = 169;

/// column widths of the satellite data block of MSM level 1..7
pub fn sat_cols(level: u8) -> &'static [usize] {
    match level {
        1 | 2 | 3 => &[10],
        4 | 6 => &[8, 10],
        _ => &[8, 4, 10, 14],
    }
}
/// column widths of the signal data block
pub fn sig_cols(level: u8) -> &'static [usize] {
    match level {
        1 => &[15],
        2 => &[22, 4, 1],
        3 => &[15, 22, 4, 1],
        4 => &[15, 22, 4, 1, 6],
        5 => &[15, 22, 4, 1, 6, 15],
        6 => &[20, 24, 10, 1, 10],
        _ => &[20, 24, 10, 1, 10, 15],
    }
}

#[derive(Clone, Debug, PartialEq)]
pub struct MsmSpec {
    pub cons: Cons,
    pub level: u8,
    /// the 61 header bits after the message number
    pub header: u64,
    /// satellites, ascending, 1..=64
    pub sats: Vec<u8>,
    /// signal-mask positions, ascending, 1..=32
    pub sigs: Vec<u8>,
    /// row-major |sats| x |sigs| incidence
    pub cells: Vec<bool>,
    /// [column][row] raw patterns
    pub sat_data: Vec<Vec<u64>>,
    /// [column][cell] raw patterns
    pub sig_data: Vec<Vec<u64>>,
}

impl MsmSpec {
    pub fn number(&self) -> u16 {
        self.cons.base() + self.level as u16
    }
    pub fn ncells(&self) -> usize {
        self.cells.iter().filter(|c| **c).count()
    }
    pub fn sat_mask(&self) -> u64 {
        self.sats.iter().fold(0u64, |m, s| m | (1u64 << (64 - *s as u32)))
    }
    pub fn sig_mask(&self) -> u32 {
        self.sigs.iter().fold(0u32, |m, s| m | (1u32 << (32 - *s as u32)))
    }
    /// cells as (satellite, signal position) in wire order
    pub fn cell_list(&self) -> Vec<(u8, u8)> {
        let mut v = Vec::new();
        for (i, s) in self.sats.iter().enumerate() {
            for (j, g) in self.sigs.iter().enumerate() {
                if self.cells[i * self.sigs.len() + j] {
                    v.push((*s, *g));
                }
            }
        }
        v
    }
    /// payload bits per the standard's layout; the cell mask is written with |S|*|G| bits whatever that number is
    pub fn synth(&self) -> Vec<u8> {
        let mut w = BitW::new();
        w.put(self.number() as u64, 12);
        w.put(self.header, HEADER_REST_BITS);
        w.put(self.sat_mask(), 64);
        w.put(self.sig_mask() as u64, 32);
        for c in &self.cells {
            w.put_bit(*c);
        }
        for (ci, width) in sat_cols(self.level).iter().enumerate() {
            for r in 0..self.sats.len() {
                w.put(self.sat_data.get(ci).and_then(|c| c.get(r)).copied().unwrap_or(0), *width);
            }
        }
        let n = self.ncells();
        for (ci, width) in sig_cols(self.level).iter().enumerate() {
            for r in 0..n {
                w.put(self.sig_data.get(ci).and_then(|c| c.get(r)).copied().unwrap_or(0), *width);
            }
        }
        w.into_bytes()
    }
    pub fn total_bits(&self) -> usize {
        let n = self.ncells();
        CELL_MASK_AT
            + self.sats.len() * self.sigs.len()
            + sat_cols(self.level).iter().sum::<usize>() * self.sats.len()
            + sig_cols(self.level).iter().sum::<usize>() * n
    }
}

/// what the wire says (reader independent of the crate's decoder)
#[derive(Clone, Debug, PartialEq)]
pub struct WireMsm {
    pub number: u16,
    pub header: u64,
    pub sat_mask: u64,
    pub sig_mask: u32,
    pub sats: Vec<u8>,
    pub sigs: Vec<u8>,
    pub cells: Vec<bool>,
    pub sat_data: Vec<Vec<u64>>,
    pub sig_data: Vec<Vec<u64>>,
    pub total_bits: usize,
}
pub fn read_wire(payload: &[u8], level: u8) -> Option<WireMsm> {
    let number = get_bits(payload, 0, 12)? as u16;
    let header = get_bits(payload, 12, HEADER_REST_BITS)?;
    let sat_mask = get_bits(payload, SAT_MASK_AT, 64)?;
    let sig_mask = get_bits(payload, SIG_MASK_AT, 32)? as u32;
    let sats: Vec<u8> = (1..=64u8).filter(|s| (sat_mask >> (64 - *s as u32)) & 1 == 1).collect();
    let sigs: Vec<u8> = (1..=32u8).filter(|s| (sig_mask >> (32 - *s as u32)) & 1 == 1).collect();
    let mut pos = CELL_MASK_AT;
    let mut cells = Vec::new();
    for _ in 0..sats.len() * sigs.len() {
        cells.push(get_bits(payload, pos, 1)? == 1);
        pos += 1;
    }
    let n = cells.iter().filter(|c| **c).count();
    let mut sat_data = Vec::new();
    for w in sat_cols(level) {
        let mut col = Vec::new();
        for _ in 0..sats.len() {
            col.push(get_bits(payload, pos, *w)?);
            pos += *w;
        }
        sat_data.push(col);
    }
    let mut sig_data = Vec::new();
    for w in sig_cols(level) {
        let mut col = Vec::new();
        for _ in 0..n {
            col.push(get_bits(payload, pos, *w)?);
            pos += *w;
        }
        sig_data.push(col);
    }
    Some(WireMsm { number, header, sat_mask, sig_mask, sats, sigs, cells, sat_data, sig_data, total_bits: pos })
}

/// random admissible spec: |S|*|G| <= 64, every satellite row and signal column used
pub fn random_spec(rng: &mut crate::rng::Rng, cons: Cons, level: u8, max_cells_product: usize) -> MsmSpec {
    let table = cons.table();
    let ng_max = table.len().min(32);
    // choose a shape
    let ng = 1 + rng.below(ng_max as u64) as usize;
    let ns_max = (max_cells_product / ng).clamp(1, 64);
    let ns = match rng.below(4) {
        0 => ns_max,
        1 => 1,
        _ => 1 + rng.below(ns_max as u64) as usize,
    };
    spec_with_shape(rng, cons, level, ns, ng)
}

pub fn spec_with_shape(rng: &mut crate::rng::Rng, cons: Cons, level: u8, ns: usize, ng: usize) -> MsmSpec {
    let table = cons.table();
    let mut all_s: Vec<u8> = (1..=64).collect();
    rng.shuffle(&mut all_s);
    let mut sats: Vec<u8> = all_s[..ns.min(64)].to_vec();
    sats.sort();
    let mut all_g: Vec<u8> = table.iter().map(|t| t.0).collect();
    rng.shuffle(&mut all_g);
    let mut sigs: Vec<u8> = all_g[..ng.min(all_g.len())].to_vec();
    sigs.sort();
    let ns = sats.len();
    let ng = sigs.len();
    // incidence covering every row and column
    let density = rng.below(4);
    let mut cells = vec![false; ns * ng];
    for c in cells.iter_mut() {
        *c = match density {
            0 => true,
            1 => rng.below(2) == 0,
            2 => rng.below(5) == 0,
            _ => rng.below(10) < 9,
        };
    }
    for i in 0..ns {
        if !(0..ng).any(|j| cells[i * ng + j]) {
            let j = rng.below(ng as u64) as usize;
            cells[i * ng + j] = true;
        }
    }
    for j in 0..ng {
        if !(0..ns).any(|i| cells[i * ng + j]) {
            let i = rng.below(ns as u64) as usize;
            cells[i * ng + j] = true;
        }
    }
    let mut spec = MsmSpec { cons, level, header: rng.next_u64() & ((1u64 << HEADER_REST_BITS) - 1), sats, sigs, cells, sat_data: vec![], sig_data: vec![] };
    fill_data(rng, &mut spec);
    spec
}

/// random raw patterns for every data column (any pattern is a legal field value)
pub fn fill_data(rng: &mut crate::rng::Rng, spec: &mut MsmSpec) {
    let n = spec.ncells();
    let style = rng.below(4);
    let pat = |rng: &mut crate::rng::Rng, w: usize| -> u64 {
        let mask = (1u64 << w) - 1;
        match style {
            0 => rng.next_u64() & mask,
            1 => 0,
            2 => mask,
            _ => {
                if rng.below(3) == 0 {
                    1u64 << (w - 1)
                } else {
                    rng.next_u64() & mask
                }
            }
        }
    };
    spec.sat_data = sat_cols(spec.level).iter().map(|w| (0..spec.sats.len()).map(|_| pat(rng, *w)).collect()).collect();
    spec.sig_data = sig_cols(spec.level).iter().map(|w| (0..n).map(|_| pat(rng, *w)).collect()).collect();
}

// ---- navigation inside the Value tree of an MSM Message ----
pub fn msm_list_path(which: &'static str) -> Vec<Step> {
    vec![Step::Inner, Step::Field("data_segment"), Step::Field(which), Step::Inner]
}
pub fn msm_list<'a>(v: &'a Value, which: &'static str) -> Option<&'a Vec<Value>> {
    match v.get(&msm_list_path(which))? {
        Value::Seq(s) => Some(s),
        _ => None,
    }
}
pub fn msm_list_mut<'a>(v: &'a mut Value, which: &'static str) -> Option<&'a mut Vec<Value>> {
    match v.get_mut(&msm_list_path(which))? {
        Value::Seq(s) => Some(s),
        _ => None,
    }
}
pub fn row_sat(row: &Value) -> Option<u8> {
    match row.get(&[Step::Field("satellite_id")])? {
        Value::U8(x) => Some(*x),
        _ => None,
    }
}
pub fn row_sig(row: &Value) -> Option<(u8, char)> {
    match row.get(&[Step::Field("signal_id")])? {
        Value::TupleStruct(_, v) if v.len() == 2 => match (&v[0], &v[1]) {
            (Value::U8(b), Value::Char(c)) => Some((*b, *c)),
            _ => None,
        },
        _ => None,
    }
}
pub fn set_row_sat(row: &mut Value, s: u8) {
    if let Some(v) = row.get_mut(&[Step::Field("satellite_id")]) {
        *v = Value::U8(s);
    }
}
pub fn set_row_sig(row: &mut Value, band: u8, attr: char) {
    if let Some(Value::TupleStruct(_, v)) = row.get_mut(&[Step::Field("signal_id")]) {
        if v.len() == 2 {
            v[0] = Value::U8(band);
            v[1] = Value::Char(attr);
        }
    }
}
