//! vcheck <Cxx> --tier quick|thorough [--replay FILE] [--profile release|ovf] [--merge-from FILE] [--evidence-out FILE]
use serde_json::Value as J;
use std::path::PathBuf;
use vcommon::infra::*;

fn main() {
    let args: Vec<String> = std::env::args().collect();
    if args.len() < 2 {
        eprintln!("usage: vcheck <Cxx> --tier quick|thorough [--replay FILE] [--profile NAME] [--merge-from FILE] [--evidence-out FILE]");
        std::process::exit(2);
    }
    if args[1] == "fuzz-seeds" {
        // vcheck fuzz-seeds <target> <dir>: write the seed corpus for a fuzz target
        let target = &args[2];
        let dir = PathBuf::from(&args[3]);
        std::fs::create_dir_all(&dir).unwrap();
        for (i, s) in vcommon::fuzzglue::seed_inputs(target).iter().enumerate() {
            std::fs::write(dir.join(format!("seed-{:04}", i)), s).unwrap();
        }
        return;
    }
    if args[1] == "fuzz-replay" {
        // vcheck fuzz-replay <target> <artifact> [<property>]: judge a libFuzzer input with the same oracles, no libFuzzer
        let target = &args[2];
        let data = std::fs::read(&args[3]).unwrap_or_else(|e| {
            eprintln!("cannot read {}: {}", args[3], e);
            std::process::exit(2)
        });
        let want = args.get(4).cloned();
        let verif_dir = PathBuf::from(std::env::var("VERIF_DIR").unwrap_or_else(|_| "/verif".to_string()));
        let known = load_known(&verif_dir);
        install_panic_hook();
        let findings = vcommon::fuzzglue::run_target(target, &data);
        let mut rc = 0;
        for (i, (prop, sig, msg, case)) in findings.iter().enumerate() {
            let prop = if prop.is_empty() { want.clone().unwrap_or_else(|| "C02".into()) } else { prop.clone() };
            if known.iter().any(|k| k.property == prop && k.signature == *sig) {
                println!("KNOWN-FINDING: property={} [signature={}]", prop, sig);
                continue;
            }
            let ctx = Ctx { prop: prop.clone(), tier: Tier::Thorough, seed: 0, profile: "fuzz".into(), verif_dir: verif_dir.clone(), scale: 1.0, known: vec![] };
            let v = Violation { property: prop.clone(), signature: sig.clone(), message: msg.clone(), case: case.clone() };
            let path = write_replay(&ctx, &v, 900 + i);
            eprintln!("violation [{}] {}", sig, msg);
            println!("VIOLATION property={} replay={}", prop, path.display());
            rc = 1;
        }
        std::process::exit(rc);
    }
    let prop = args[1].clone();
    let mut tier = match std::env::var("VERIF_TIER").ok().as_deref() {
        Some("thorough") => Tier::Thorough,
        _ => Tier::Quick,
    };
    let mut replay: Option<String> = None;
    let mut profile = "release".to_string();
    let mut merge_from: Option<String> = None;
    let mut evidence_out: Option<String> = None;
    let mut no_evidence = false;
    let mut i = 2;
    while i < args.len() {
        match args[i].as_str() {
            "--tier" => {
                i += 1;
                tier = if args[i] == "thorough" { Tier::Thorough } else { Tier::Quick };
            }
            "--replay" => {
                i += 1;
                replay = Some(args[i].clone());
            }
            "--profile" => {
                i += 1;
                profile = args[i].clone();
            }
            "--merge-from" => {
                i += 1;
                merge_from = Some(args[i].clone());
            }
            "--evidence-out" => {
                i += 1;
                evidence_out = Some(args[i].clone());
            }
            "--no-evidence" => no_evidence = true,
            x => {
                eprintln!("unknown argument {}", x);
                std::process::exit(2);
            }
        }
        i += 1;
    }
    let seed: u64 = std::env::var("VERIF_SEED").ok().and_then(|s| s.trim().parse::<i128>().ok()).map(|v| v as u64).unwrap_or(20261002);
    let scale: f64 = std::env::var("VERIF_SCALE").ok().and_then(|s| s.parse().ok()).unwrap_or(1.0);
    let verif_dir = PathBuf::from(std::env::var("VERIF_DIR").unwrap_or_else(|_| "/verif".to_string()));
    let known = load_known(&verif_dir);
    let ctx = Ctx { prop: prop.clone(), tier, seed, profile: profile.clone(), verif_dir: verif_dir.clone(), scale, known };

    if tier == Tier::Thorough {
        set_distinct_cap(40_000_000);
    }
    install_panic_hook();
    let replay_case: Option<J> = match &replay {
        Some(p) => {
            let s = std::fs::read_to_string(p).unwrap_or_else(|e| {
                eprintln!("cannot read replay file {}: {}", p, e);
                std::process::exit(2)
            });
            let doc: J = serde_json::from_str(&s).unwrap_or_else(|e| {
                eprintln!("replay file {} is not JSON: {}", p, e);
                std::process::exit(2)
            });
            Some(doc.get("case").cloned().unwrap_or(doc))
        }
        None => None,
    };
    let t = Timer::start();
    let ran = std::panic::catch_unwind(std::panic::AssertUnwindSafe(|| vcommon::checks::run(&ctx, replay_case.as_ref())));
    let res = match ran {
        Ok(Some(r)) => r,
        Ok(None) => {
            eprintln!("no check for property {}", prop);
            std::process::exit(2);
        }
        Err(_) => {
            // a panic escaped the check. If it was raised inside the crate under test it is reported as a violation of
            // this property (no listed property tolerates a panic on the paths its check drives); a panic raised by the
            // harness itself is an infrastructure failure (exit 2), never a violation.
            let what = vcommon::infra::LAST_UNCAUGHT.lock().ok().and_then(|g| g.clone()).unwrap_or_else(|| "panic".to_string());
            let in_crate = what.contains(vcommon::registry::REPO_PATH) || std::env::var("RTCM_REPO").map(|r| what.contains(&r)).unwrap_or(false);
            if !in_crate {
                eprintln!("INFRA: the check itself panicked: {}", what);
                std::process::exit(2);
            }
            let v = Violation { property: prop.clone(), signature: panic_signature(&what), message: format!("the crate panicked outside the check's guarded sections: {}", what), case: serde_json::json!({"kind":"uncaught-panic","panic":what}) };
            let mut ev = Evidence::new();
            ev.eval();
            vcommon::infra::CheckResult { evidence: ev, rule: "aborted by a panic inside the crate under test".into(), assumptions: vec![], violations: vec![v] }
        }
    };
    // regression tier: saved failing inputs of earlier findings (regressions/<id>/*.json) are replayed on every run
    let mut res = res;
    let mut regressions = 0usize;
    if replay.is_none() {
        let dir = verif_dir.join("regressions").join(&prop);
        let mut files: Vec<PathBuf> = std::fs::read_dir(&dir).map(|rd| rd.filter_map(|e| e.ok()).map(|e| e.path()).filter(|p| p.extension().map(|x| x == "json").unwrap_or(false)).collect()).unwrap_or_default();
        files.sort();
        for f in files {
            if let Ok(txt) = std::fs::read_to_string(&f) {
                if let Ok(doc) = serde_json::from_str::<J>(&txt) {
                    let case = doc.get("case").cloned().unwrap_or(doc);
                    if let Some(r) = vcommon::checks::run(&ctx, Some(&case)) {
                        regressions += 1;
                        res.evidence.evaluations += 1;
                        for mut v in r.violations {
                            v.message = format!("[regression case {}] {}", f.file_name().map(|x| x.to_string_lossy().to_string()).unwrap_or_default(), v.message);
                            res.violations.push(v);
                        }
                    }
                }
            }
        }
        if regressions > 0 {
            res.evidence.extra.insert("regression_cases_replayed".into(), serde_json::json!(regressions));
        }
    }
    let wall = t.secs();

    // known findings: print each listed open finding for this property
    for k in ctx.known.iter().filter(|k| k.property == prop) {
        println!("KNOWN-FINDING: property={} {} [signature={}]", k.property, k.text, k.signature);
    }
    let mut unknown = 0usize;
    let mut lines = Vec::new();
    for (idx, v) in res.violations.iter().enumerate() {
        if ctx.is_known(&v.signature) {
            continue;
        }
        unknown += 1;
        let path = if replay.is_some() { PathBuf::from(replay.clone().unwrap()) } else { write_replay(&ctx, v, idx) };
        eprintln!("violation [{}] {}", v.signature, v.message);
        lines.push(format!("VIOLATION property={} replay={}", v.property, path.display()));
    }
    if replay.is_none() && !no_evidence {
        let mut ev = evidence_json(&ctx, &res, wall, unknown);
        if let Some(m) = merge_from {
            if let Ok(s) = std::fs::read_to_string(&m) {
                if let Ok(prev) = serde_json::from_str::<J>(&s) {
                    ev = merge_evidence_json(&prev, &ev);
                }
            }
        }
        let out = evidence_out.map(PathBuf::from).unwrap_or_else(|| verif_dir.join("evidence").join(format!("{}.json", prop)));
        if let Some(d) = out.parent() {
            let _ = std::fs::create_dir_all(d);
        }
        std::fs::write(&out, serde_json::to_string_pretty(&ev).unwrap()).expect("write evidence");
    }
    println!(
        "{} {} [{}] seed={} evaluations={} distinct_nontrivial={} wall={:.1}s violations={} excluded_known={}",
        prop,
        tier.name(),
        profile,
        seed,
        res.evidence.evaluations,
        res.evidence.distinct_count(),
        wall,
        unknown,
        res.evidence.excluded_known
    );
    for n in &res.evidence.notes {
        println!("note: {}", n);
    }
    for l in &lines {
        println!("{}", l);
    }
    std::process::exit(if unknown > 0 { 1 } else { 0 });
}
