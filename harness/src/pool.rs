//! Pools of valid frames shared by the frame-level checks.
use crate::frame::{frame, frame_with_reserved, ref_scan_all};
use crate::registry::REPO_PATH;
use crate::rng::Rng;

/// every frame found in /repo/testdata/*.rtcm (sorted by file name), split with the reference scanner
pub fn golden_frames() -> Vec<(String, Vec<u8>)> {
    let dir = format!("{}/testdata", REPO_PATH);
    let mut names: Vec<String> = match std::fs::read_dir(&dir) {
        Ok(rd) => rd
            .filter_map(|e| e.ok())
            .map(|e| e.file_name().to_string_lossy().to_string())
            .filter(|n| n.ends_with(".rtcm"))
            .collect(),
        Err(_) => Vec::new(),
    };
    names.sort();
    let mut out = Vec::new();
    for n in names {
        if let Ok(b) = std::fs::read(format!("{}/{}", dir, n)) {
            let (frames, _) = ref_scan_all(&b);
            for (k, (a, e)) in frames.iter().enumerate() {
                out.push((format!("{}#{}", n, k), b[*a..*e].to_vec()));
            }
        }
    }
    out
}

/// random-payload frame of payload length l
pub fn random_frame(rng: &mut Rng, l: usize, random_reserved: bool) -> Vec<u8> {
    let p = rng.bytes(l);
    if random_reserved {
        frame_with_reserved(&p, rng.below(64) as u8)
    } else {
        frame(&p)
    }
}

/// payload whose density class is chosen by `class` (0 zeros, 1 ones, 2 uniform, 3 sparse, 4 dense, 5 D3-rich)
pub fn payload_of_class(rng: &mut Rng, l: usize, class: u64) -> Vec<u8> {
    let mut p = vec![0u8; l];
    match class % 6 {
        0 => {}
        1 => p.iter_mut().for_each(|b| *b = 0xFF),
        2 => rng.fill(&mut p),
        3 => {
            for b in p.iter_mut() {
                if rng.below(8) == 0 {
                    *b = 1 << rng.below(8);
                }
            }
        }
        4 => {
            for b in p.iter_mut() {
                *b = 0xFF;
                if rng.below(8) == 0 {
                    *b ^= 1 << rng.below(8);
                }
            }
        }
        _ => {
            rng.fill(&mut p);
            for b in p.iter_mut() {
                if rng.below(4) == 0 {
                    *b = 0xD3;
                }
            }
        }
    }
    p
}

pub const SPECIAL_CRCS: &[u32] = &[0x000000, 0x000001, 0xFFFFFF, 0x800000, 0x7FFFFF, 0xD30000, 0x00D300, 0x0000D3, 0xD3D3D3, 0x010000, 0x000100, 0xAAAAAA, 0x555555, 0x000D0A, 0x410D0A, 0x0D0A00, 0x00000A, 0x20200A, 0x202020, 0x00FFFF, 0xFFFF00];

/// a valid frame of payload length l (>= 3) whose CRC-24Q is exactly `target` (the last three payload bytes are solved for)
pub fn frame_with_crc(rng: &mut Rng, l: usize, reserved: u8, target: u32) -> Vec<u8> {
    assert!(l >= 3);
    let mut p = rng.bytes(l);
    let mut prefix = vec![0xD3u8, ((reserved & 0x3F) << 2) | ((l >> 8) as u8 & 3), l as u8];
    prefix.extend_from_slice(&p[..l - 3]);
    let tail = crate::crc::tail_for_crc(&prefix, target);
    p[l - 3..].copy_from_slice(&tail);
    let f = frame_with_reserved(&p, reserved);
    debug_assert_eq!(crate::crc::crc24q(&f[..f.len() - 3]), target);
    f
}
