//! vcommon: reference models, generators and check implementations for the rtcm-rs properties C01..C20.
pub mod biasmsg;
pub mod bits;
pub mod crc;
pub mod fields;
pub mod frame;
pub mod fuzzglue;
pub mod infra;
pub mod msggen;
pub mod msm;
pub mod pool;
pub mod rng;
pub mod value;

pub mod registry {
    #[derive(Debug, Clone, Copy)]
    pub struct MsgRow {
        pub feature: &'static str,
        pub variant: &'static str,
        pub module: &'static str,
        pub number: u16,
    }
    include!(concat!(env!("OUT_DIR"), "/registry.rs"));

    pub fn supported_numbers() -> Vec<u16> {
        MSG_TABLE.iter().map(|r| r.number).collect()
    }
    pub fn is_supported(n: u16) -> bool {
        MSG_TABLE.iter().any(|r| r.number == n)
    }
}

pub mod checks;
