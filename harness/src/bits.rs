//! One-bit-at-a-time MSB-first writer / reader: the reference for every wire-level observation.
#[derive(Clone, Debug, Default)]
pub struct BitW {
    pub buf: Vec<u8>,
    pub nbits: usize,
}
impl BitW {
    pub fn new() -> Self {
        BitW { buf: Vec::new(), nbits: 0 }
    }
    pub fn put_bit(&mut self, b: bool) {
        if self.nbits % 8 == 0 {
            self.buf.push(0);
        }
        if b {
            let i = self.nbits / 8;
            self.buf[i] |= 0x80 >> (self.nbits % 8);
        }
        self.nbits += 1;
    }
    /// low `w` bits of v, most significant first
    pub fn put(&mut self, v: u64, w: usize) {
        for i in (0..w).rev() {
            self.put_bit(if i >= 64 { false } else { (v >> i) & 1 == 1 });
        }
    }
    pub fn put_i(&mut self, v: i64, w: usize) {
        self.put(v as u64, w)
    }
    pub fn put_bytes(&mut self, b: &[u8]) {
        for &x in b {
            self.put(x as u64, 8);
        }
    }
    pub fn into_bytes(self) -> Vec<u8> {
        self.buf
    }
}

pub fn set_bits(buf: &mut [u8], off: usize, w: usize, v: u64) {
    for i in 0..w {
        let bit = if w - 1 - i >= 64 { 0 } else { (v >> (w - 1 - i)) & 1 };
        let p = off + i;
        let m = 0x80u8 >> (p % 8);
        if bit == 1 {
            buf[p / 8] |= m;
        } else {
            buf[p / 8] &= !m;
        }
    }
}

pub fn get_bits(buf: &[u8], off: usize, w: usize) -> Option<u64> {
    if off + w > buf.len() * 8 || w > 64 {
        return None;
    }
    let mut v = 0u64;
    for i in 0..w {
        let p = off + i;
        v = (v << 1) | ((buf[p / 8] >> (7 - p % 8)) & 1) as u64;
    }
    Some(v)
}

pub fn get_bits_signed(buf: &[u8], off: usize, w: usize) -> Option<i64> {
    let v = get_bits(buf, off, w)?;
    if w == 0 {
        return Some(0);
    }
    if w < 64 && (v >> (w - 1)) & 1 == 1 {
        Some((v | (!0u64 << w)) as i64)
    } else {
        Some(v as i64)
    }
}

pub struct BitR<'a> {
    pub buf: &'a [u8],
    pub pos: usize,
}
impl<'a> BitR<'a> {
    pub fn new(buf: &'a [u8], pos: usize) -> Self {
        BitR { buf, pos }
    }
    pub fn get(&mut self, w: usize) -> Option<u64> {
        let v = get_bits(self.buf, self.pos, w)?;
        self.pos += w;
        Some(v)
    }
    pub fn get_i(&mut self, w: usize) -> Option<i64> {
        let v = get_bits_signed(self.buf, self.pos, w)?;
        self.pos += w;
        Some(v)
    }
    pub fn remaining(&self) -> usize {
        self.buf.len() * 8 - self.pos.min(self.buf.len() * 8)
    }
}

pub fn hex(b: &[u8]) -> String {
    let mut s = String::with_capacity(b.len() * 2);
    for x in b {
        s.push_str(&format!("{:02x}", x));
    }
    s
}
pub fn unhex(s: &str) -> Option<Vec<u8>> {
    let s = s.trim();
    if s.len() % 2 != 0 {
        return None;
    }
    (0..s.len() / 2)
        .map(|i| u8::from_str_radix(&s[2 * i..2 * i + 2], 16).ok())
        .collect()
}
