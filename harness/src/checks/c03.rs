//! C03 — a frame is accepted iff preamble, length and CRC-24Q all check out.
use crate::bits::{hex, unhex};
use crate::frame::{frame_with_reserved, ref_check, RefVerdict};
use crate::infra::*;
use rayon::prelude::*;
use rtcm_rs::prelude::*;
use serde_json::{json, Value as J};

/// the oracle on one slice; Ok(class) or Err((signature, message))
pub fn oracle(s: &[u8]) -> Result<&'static str, (String, String)> {
    let r = MessageFrame::new(s);
    let verdict = ref_check(s);
    let d3 = !s.is_empty() && s[0] == 0xD3;
    match verdict {
        RefVerdict::Accept(l) => {
            let mf = match r {
                Ok(m) => m,
                Err(e) => {
                    return Err((
                        "c03:valid-frame-rejected".into(),
                        format!("reference accepts (L={}) but MessageFrame::new returned {:?}", l, e),
                    ))
                }
            };
            let crc_ref = ((s[l + 3] as u32) << 16) | ((s[l + 4] as u32) << 8) | s[l + 5] as u32;
            if mf.frame_len() != l + 6 {
                return Err(("c03:frame_len".into(), format!("frame_len {} != L+6 = {}", mf.frame_len(), l + 6)));
            }
            if mf.data_len() != l || mf.data() != &s[3..3 + l] {
                return Err(("c03:payload".into(), format!("payload differs from bytes 3..3+L (L={})", l)));
            }
            if mf.frame_data() != &s[..l + 6] {
                return Err(("c03:frame_data".into(), "frame_data differs from the first L+6 bytes".into()));
            }
            if mf.crc() != crc_ref || crc_ref != crate::crc::crc24q_bitwise(&s[..l + 3]) {
                return Err(("c03:crc".into(), format!("reported crc {:06x} != trailing checksum {:06x}", mf.crc(), crc_ref)));
            }
            // accepted as a frame also when the slice is handed to the scanner (first L+6 bytes, whatever they end in)
            if s.len() <= 2200 {
                let (c, f) = next_msg_frame(s);
                match f {
                    Some(m) if c == l + 6 && m.frame_len() == l + 6 => {}
                    _ => return Err(("c03:valid-frame-rejected-by-scanner".into(), format!("reference accepts (L={}, checksum {:06x}) and MessageFrame::new accepts, but next_msg_frame on the same slice consumed {} and delivered {}", l, crc_ref, c, if f.is_some() { "another frame" } else { "nothing" }))),
                }
            }
            Ok("accepted")
        }
        RefVerdict::Incomplete => match r {
            Ok(_) => Err(("c03:incomplete-accepted".into(), "slice shorter than its declared extent was accepted".into())),
            Err(RtcmError::Incomplete) => Ok("incomplete"),
            Err(e) => {
                if d3 {
                    Err(("c03:incomplete-kind".into(), format!("D3-prefixed slice shorter than its extent reported {:?}, expected Incomplete", e)))
                } else {
                    Ok("not-accepted")
                }
            }
        },
        RefVerdict::NotValid => match r {
            Ok(_) => Err(("c03:invalid-accepted".into(), "slice rejected by the reference (preamble/CRC) was accepted".into())),
            Err(RtcmError::NotValid) => Ok("notvalid"),
            Err(e) => {
                if d3 {
                    Err(("c03:notvalid-kind".into(), format!("complete candidate with wrong checksum reported {:?}, expected NotValid", e)))
                } else {
                    Ok("not-accepted")
                }
            }
        },
    }
}

/// the same verdict through the other public entry points: a complete wrong-checksum candidate between valid frames must
/// not be delivered or counted by next_msg_frame, MsgFrameIter::next, nth, skip or count
pub fn oracle_entry_points(valid: &[u8], candidate: &[u8]) -> Result<(), (String, String)> {
    use crate::frame::ref_scan_all;
    let mut buf = valid.to_vec();
    buf.extend_from_slice(candidate);
    buf.extend_from_slice(valid);
    buf.extend_from_slice(valid);
    let (rf, _) = ref_scan_all(&buf);
    let base = buf.as_ptr() as usize;
    let range = |m: &MessageFrame| {
        let a = (m.frame_data().as_ptr() as usize).wrapping_sub(base);
        (a, a + m.frame_len())
    };
    let mut it = MsgFrameIter::new(&buf);
    let all: Vec<(usize, usize)> = (&mut it).map(|m| range(&m)).collect();
    if all != rf {
        return Err(("c03:iterator-acceptance".into(), format!("iterator delivers {:?}, the acceptance predicate gives {:?}", all, rf)));
    }
    for k in 0..=rf.len() {
        let mut it = MsgFrameIter::new(&buf);
        let got = (&mut it).nth(k).map(|m| range(&m));
        if got != rf.get(k).copied() {
            return Err(("c03:iterator-acceptance".into(), format!("nth({}) delivers {:?}, the acceptance predicate gives {:?}", k, got, rf.get(k))));
        }
    }
    let mut it = MsgFrameIter::new(&buf);
    if (&mut it).count() != rf.len() {
        return Err(("c03:iterator-acceptance".into(), "count() differs from the number of accepted frames".into()));
    }
    let mut it = MsgFrameIter::new(&buf);
    let sk: Vec<(usize, usize)> = (&mut it).skip(1).map(|m| range(&m)).collect();
    if sk != rf.iter().skip(1).copied().collect::<Vec<_>>() {
        return Err(("c03:iterator-acceptance".into(), "skip(1) differs from the accepted frames".into()));
    }
    Ok(())
}

fn viol(sig: String, msg: String, s: &[u8], how: &str) -> Violation {
    Violation {
        property: "C03".into(),
        signature: sig,
        message: msg,
        case: json!({"kind":"slice","how":how,"bytes":hex(s)}),
    }
}

pub fn run(ctx: &Ctx, replay: Option<&J>) -> CheckResult {
    crate::crc::self_check();
    let rule = "for every payload length L=0..=1023: frames with random payload and random reserved bits, frames of that length announcing every supported message number in their first 12 payload bits, and near-misses derived \
        from them (wrong preamble, every truncation length 0..L+5, each checksum bit flipped, checksum byte changed/swapped, \
        length field +-1/random with and without trailing bytes, payload bit flips, trailing bytes, other reserved bits; all 64 reserved-bit patterns for every length = all 65536 header patterns, alone and followed by >1029 bytes, and each again with a payload whose first 1..8 bytes repeat the preamble or a header byte (with truncations); frames at the start of slices of 65535..131077 bytes; frames whose checksum is 0x000000, 0xFFFFFF, 0xD30000, ...0D0A (CR LF) and seventeen more special values, with their near-misses), plus random \
        and D3-prefixed random slices; oracle = own CRC-24Q acceptance predicate compared with MessageFrame::new incl. \
        reported lengths/payload/checksum and error kind; wrong-checksum candidates between valid frames are also looked at through next_msg_frame-based iteration (next, nth, skip, count) which must deliver exactly the accepted frames. non-trivial = accepted frame or near-miss derived from one; distinct = hash of the slice bytes"
        .to_string();
    let assumptions = vec![
        "reference CRC-24Q implemented bitwise from the generator 0x1864CFB and self-checked against the catalogue value 0xCDE703".to_string(),
        "for slices not starting with 0xD3 only 'not accepted' is asserted (the statement fixes no error kind there)".to_string(),
    ];
    if let Some(case) = replay {
        if case["kind"] == "entry-points" {
            let v = unhex(case["valid"].as_str().unwrap_or("")).unwrap_or_default();
            let c = unhex(case["candidate"].as_str().unwrap_or("")).unwrap_or_default();
            let mut ev = Evidence::new();
            ev.eval();
            let mut vs = Vec::new();
            if let Err((sig, msg)) = oracle_entry_points(&v, &c) {
                vs.push(Violation { property: "C03".into(), signature: sig, message: msg, case: case.clone() });
            }
            return CheckResult { evidence: ev, rule, assumptions, violations: vs };
        }
        let mut s = unhex(case["bytes"].as_str().unwrap_or("")).unwrap_or_default();
        if case["kind"] == "long-slice" {
            s = unhex(case["frame"].as_str().unwrap_or("")).unwrap_or_default();
            let total = case["total_len"].as_u64().unwrap_or(0) as usize;
            let mut rng = ctx.rng("c03-big", case["l"].as_u64().unwrap_or(0));
            let l = case["l"].as_u64().unwrap_or(0) as usize;
            let _ = rng.bytes(l);
            let filler = rng.bytes(140_000);
            if total > s.len() {
                let need = total - s.len();
                s.extend_from_slice(&filler[..need.min(filler.len())]);
            }
        }
        let mut ev = Evidence::new();
        ev.eval();
        let mut vs = Vec::new();
        if let Err((sig, msg)) = oracle(&s) {
            vs.push(viol(sig, msg, &s, "replay"));
        }
        return CheckResult { evidence: ev, rule, assumptions, violations: vs };
    }
    let reps = ctx.n(40, 3000) as usize;
    let parts: Vec<(Evidence, Vec<Violation>)> = (0..=1023usize)
        .into_par_iter()
        .map(|l| {
            let mut ev = Evidence::new();
            let mut vs: Vec<Violation> = Vec::new();
            let mut rng = ctx.rng("c03", l as u64);
            let go = |ev: &mut Evidence, vs: &mut Vec<Violation>, s: &[u8], how: &str, nontrivial: bool| {
                ev.eval();
                match oracle(s) {
                    Ok(c) => {
                        ev.class(&format!("{}/{}", how, c));
                        if nontrivial {
                            ev.nontrivial_bytes(s);
                        }
                    }
                    Err((sig, msg)) => {
                        if vs.len() < 3 {
                            vs.push(viol(sig, msg, s, how));
                        }
                    }
                }
            };
            for rep in 0..reps {
                let class = if rep == 0 { 2 } else { rng.below(6) };
                let p = crate::pool::payload_of_class(&mut rng, l, class);
                let reserved = if rep == 0 && l % 2 == 0 { 0 } else { rng.below(64) as u8 };
                let f = frame_with_reserved(&p, reserved);
                go(&mut ev, &mut vs, &f, "valid", true);
                if l % 97 == 0 && rep == 0 {
                    ev.sample(json!({"how":"valid","L":l,"reserved":reserved,"frame_prefix":hex(&f[..f.len().min(12)]),"len":f.len()}));
                }
                // reserved bits do not influence acceptance (re-framed with other reserved bits)
                let f2 = frame_with_reserved(&p, rng.below(64) as u8);
                go(&mut ev, &mut vs, &f2, "valid-other-reserved", true);
                if rep == 0 {
                    // every one of the 64 reserved-bit patterns for this length (all 65536 header patterns over the run), alone
                    // and followed by more than a maximum-length frame of other data
                    let tail = rng.bytes(1040);
                    for r in 0..64u8 {
                        let mut g = frame_with_reserved(&p, r);
                        go(&mut ev, &mut vs, &g, "all-header-patterns", true);
                        g.extend_from_slice(&tail);
                        if r % 4 == (l % 4) as u8 {
                            g[l + 6] = 0xD3;
                        }
                        go(&mut ev, &mut vs, &g, "all-header-patterns+long-trailing", true);
                        // the same header pattern with a payload that begins like a header: 1..=8 leading bytes equal to the
                        // preamble (or to the header's own second / third byte), and two truncations of that frame
                        if l >= 1 {
                            let mut q = p.clone();
                            let k = (1 + (r as usize % 8)).min(l);
                            let h = frame_with_reserved(&p, r);
                            let lead = match (r / 8) % 3 {
                                0 => 0xD3,
                                1 => h[1],
                                _ => h[2],
                            };
                            for b in q.iter_mut().take(k) {
                                *b = lead;
                            }
                            let g2 = frame_with_reserved(&q, r);
                            go(&mut ev, &mut vs, &g2, "header-like-payload", true);
                            go(&mut ev, &mut vs, &g2[..g2.len() - 1], "header-like-payload-truncated", true);
                            go(&mut ev, &mut vs, &g2[..(4 + k).min(g2.len() - 1)], "header-like-payload-truncated", true);
                        }
                    }
                }
                if rep == 0 && l >= 2 {
                    // acceptance must not depend on what the payload says: every supported message number (and a few others)
                    // as the first 12 payload bits of a frame of this length, whatever length that message "should" have
                    let mut q = p.clone();
                    let extra = [0u16, 1, 999, 1000, 1306, 4000, 4094, 4095];
                    for n in crate::registry::MSG_TABLE.iter().map(|r| r.number).chain(extra.iter().copied()) {
                        q[0] = (n >> 4) as u8;
                        q[1] = (q[1] & 0x0F) | ((n & 0xF) << 4) as u8;
                        let g = frame_with_reserved(&q, if n % 3 == 0 { reserved } else { 0 });
                        go(&mut ev, &mut vs, &g, "valid/every-message-number", true);
                    }
                }
                // reserved bits changed *without* fixing the checksum: covered by C04, here just the predicate
                // wrong preamble
                let rp = rng.below(256) as u8;
                for pre in [0xD2u8, 0x53, 0x00, 0xFF, rp] {
                    if pre == 0xD3 {
                        continue;
                    }
                    let mut g = f.clone();
                    g[0] = pre;
                    go(&mut ev, &mut vs, &g, "wrong-preamble", true);
                }
                // every truncation length (first repetition), sampled afterwards
                if rep == 0 {
                    for k in 0..f.len() {
                        go(&mut ev, &mut vs, &f[..k], "truncated", true);
                    }
                } else {
                    for _ in 0..8 {
                        let k = rng.below(f.len() as u64) as usize;
                        go(&mut ev, &mut vs, &f[..k], "truncated", true);
                    }
                }
                // checksum off by one bit
                for b in 0..24 {
                    let mut g = f.clone();
                    let n = g.len();
                    g[n - 3 + b / 8] ^= 0x80 >> (b % 8);
                    go(&mut ev, &mut vs, &g, "crc-bit", true);
                }
                // the near-misses seen through scanner and iterator (every 16th length; short frames only to keep it cheap)
                if rep == 0 && (l % 16 == 0 || l < 8) && l <= 256 {
                    for b in [0usize, 7, 23] {
                        let mut g = f.clone();
                        let n = g.len();
                        g[n - 3 + b / 8] ^= 0x80 >> (b % 8);
                        ev.eval();
                        match oracle_entry_points(&f, &g) {
                            Ok(()) => ev.class("entry-points/near-miss-between-valid-frames"),
                            Err((sig, msg)) => {
                                if vs.len() < 3 {
                                    let mut all = f.clone();
                                    all.extend_from_slice(&g);
                                    vs.push(Violation { property: "C03".into(), signature: sig, message: msg, case: json!({"kind":"entry-points","valid":hex(&f),"candidate":hex(&g)}) });
                                }
                            }
                        }
                    }
                }
                // checksum off by one byte / bytes swapped
                for b in 0..3 {
                    let mut g = f.clone();
                    let n = g.len();
                    g[n - 3 + b] = g[n - 3 + b].wrapping_add(1 + rng.below(255) as u8);
                    go(&mut ev, &mut vs, &g, "crc-byte", true);
                }
                {
                    let mut g = f.clone();
                    let n = g.len();
                    g.swap(n - 3, n - 1);
                    go(&mut ev, &mut vs, &g, "crc-swapped", true);
                    let mut g = f.clone();
                    g.swap(n - 2, n - 1);
                    go(&mut ev, &mut vs, &g, "crc-swapped", true);
                }
                // payload / header bit flips
                for _ in 0..4 {
                    let mut g = f.clone();
                    let n = g.len();
                    let bit = 8 + rng.below((n as u64 - 1) * 8) as usize;
                    g[bit / 8] ^= 0x80 >> (bit % 8);
                    go(&mut ev, &mut vs, &g, "bit-flip", true);
                    // the same damaged frame followed by plenty of trailing data (so a longer declared extent is complete)
                    let mut h = g.clone();
                    h.extend_from_slice(&rng.bytes(1100));
                    go(&mut ev, &mut vs, &h, "bit-flip+trailing", true);
                }
                // length field perturbed
                let set_len = |g: &mut Vec<u8>, nl: usize| {
                    g[1] = (g[1] & 0xFC) | ((nl >> 8) as u8 & 3);
                    g[2] = nl as u8;
                };
                let mut lens: Vec<usize> = vec![rng.below(1024) as usize, rng.below(1024) as usize];
                if l > 0 {
                    lens.push(l - 1);
                }
                if l < 1023 {
                    lens.push(l + 1);
                }
                for nl in lens {
                    if nl == l {
                        continue;
                    }
                    let mut g = f.clone();
                    set_len(&mut g, nl);
                    go(&mut ev, &mut vs, &g, "length-perturbed", true);
                    let mut h = g.clone();
                    h.extend_from_slice(&rng.bytes(1030));
                    go(&mut ev, &mut vs, &h, "length-perturbed+trailing", true);
                }
                // trailing bytes after a valid frame
                let ex = 1 + rng.below(40) as usize;
                for extra in [1usize, 2, 3, 7, ex] {
                    let mut g = f.clone();
                    g.extend_from_slice(&rng.bytes(extra));
                    go(&mut ev, &mut vs, &g, "valid+trailing", true);
                }
                // random slices
                let n = rng.below(48) as usize;
                let r = rng.bytes(n);
                go(&mut ev, &mut vs, &r, "random", false);
                let mut r = rng.bytes_len(6, 80);
                r[0] = 0xD3;
                r[1] &= 0xFC;
                r[2] = rng.below(r.len() as u64 + 4) as u8;
                go(&mut ev, &mut vs, &r, "random-d3", false);
            }
            (ev, vs)
        })
        .collect();
    let mut ev = Evidence::new();
    let mut vs = Vec::new();
    for (e, v) in parts {
        ev.merge(e);
        vs.extend(v);
    }
    // frames whose CRC-24Q has a special value (0x000000, 0xFFFFFF, 0xD30000, ...) and their near-misses
    {
        let mut rng = ctx.rng("c03-special-crc", 0);
        for (k, target) in crate::pool::SPECIAL_CRCS.iter().enumerate() {
            for l in [3usize, 4, 5, 9, 64, 300, 1023] {
                let f = crate::pool::frame_with_crc(&mut rng, l, if k % 3 == 0 { 0 } else { (k * 5) as u8 & 63 }, *target);
                let mut cases: Vec<(Vec<u8>, &str)> = vec![(f.clone(), "special-crc/valid")];
                for b in 0..24 {
                    let mut g = f.clone();
                    let n = g.len();
                    g[n - 3 + b / 8] ^= 0x80 >> (b % 8);
                    cases.push((g, "special-crc/crc-bit"));
                }
                for _ in 0..8 {
                    let mut g = f.clone();
                    let bit = 24 + rng.below((l as u64) * 8) as usize;
                    g[bit / 8] ^= 0x80 >> (bit % 8);
                    cases.push((g, "special-crc/payload-bit"));
                }
                let mut g = f.clone();
                g.extend_from_slice(&rng.bytes(9));
                cases.push((g, "special-crc/valid+trailing"));
                for (c, how) in cases {
                    ev.evaluations += 1;
                    match oracle(&c) {
                        Ok(cl) => {
                            ev.class(&format!("{}/{}", how, cl));
                            ev.nontrivial_bytes(&c);
                        }
                        Err((sig, msg)) => {
                            if !vs.iter().any(|v: &Violation| v.signature == sig) {
                                vs.push(viol(sig, format!("frame with checksum {:06x}: {}", target, msg), &c, how));
                            }
                        }
                    }
                }
            }
        }
    }
    // very long slices: a valid (or nearly valid) frame followed by so much data that the slice length crosses 2^16, 2^17
    // (lengths chosen around the wrap points of 16-bit arithmetic, incl. len mod 65536 < L+6)
    {
        let big: Vec<(Evidence, Vec<Violation>)> = [0usize, 1, 2, 5, 19, 100, 255, 256, 700, 1022, 1023]
            .par_iter()
            .map(|l| {
                let mut ev = Evidence::new();
                let mut vs: Vec<Violation> = Vec::new();
                let mut rng = ctx.rng("c03-big", *l as u64);
                let p = rng.bytes(*l);
                let f = frame_with_reserved(&p, if l % 2 == 0 { 0 } else { 21 });
                let filler = rng.bytes(140_000);
                for total in [65_535usize, 65_536, 65_537, 65_536 + l + 5, 65_536 + l + 6, 65_536 + l + 7, 70_000, 131_071, 131_072, 131_072 + 3, 131_072 + l + 5] {
                    let mut g = f.clone();
                    g.extend_from_slice(&filler[..total - f.len()]);
                    ev.evaluations += 1;
                    match oracle(&g) {
                        Ok(c) => {
                            ev.class(&format!("long-slice/{}", c));
                            ev.nontrivial_hash(hash_u64s(&[*l as u64, total as u64, 1]));
                        }
                        Err((sig, msg)) => {
                            if vs.is_empty() {
                                vs.push(viol(sig, format!("slice of {} bytes: {}", total, msg), &g[..f.len() + 8], "long-slice(only the first bytes are kept in the replay; total length in the message)"));
                                vs.last_mut().unwrap().case = json!({"kind":"long-slice","frame":hex(&f),"total_len":total,"filler_seed_label":"c03-big","l":l});
                            }
                        }
                    }
                    // the same with a damaged checksum
                    let n = f.len();
                    g[n - 1] ^= 0x40;
                    ev.evaluations += 1;
                    if let Err((sig, msg)) = oracle(&g) {
                        if vs.is_empty() {
                            vs.push(viol(sig, format!("slice of {} bytes: {}", total, msg), &g[..f.len() + 8], "long-slice"));
                            vs.last_mut().unwrap().case = json!({"kind":"long-slice","frame":hex(&g[..n]),"total_len":total,"filler_seed_label":"c03-big","l":l});
                        }
                    }
                }
                (ev, vs)
            })
            .collect();
        for (e, v) in big {
            ev.merge(e);
            vs.extend(v);
        }
    }
    ev.extra.insert("payload_lengths_enumerated".into(), json!("0..=1023 (all)"));
    ev.extra.insert("exhaustive_subdomain".into(), json!("payload length L and truncation length are enumerated completely; payload contents are sampled"));
    CheckResult { evidence: ev, rule, assumptions, violations: vs }
}
