//! C17 — text fields are preserved exactly or cut on a character boundary.
use crate::bits::{hex, unhex, BitW};
use crate::frame::frame;
use crate::infra::*;
use crate::msggen::{self, corpus, decode_frame, value_to_message};
use crate::value::Value;
use proptest::prelude::*;
use rtcm_rs::msg::Msg1029T;
use rtcm_rs::prelude::*;
use rtcm_rs::util::{ArrayString, Df88591String};
use serde_json::{json, Value as J};

fn ref_latin1(s: &str, n: usize) -> Vec<u8> {
    s.chars().take(n).map(|c| { let u = c as u32; if (1..=255).contains(&u) { u as u8 } else { 0xA4 } }).collect()
}
fn ref_prefix(s: &str, n: usize) -> &str {
    let mut end = 0;
    for (i, c) in s.char_indices() {
        if i + c.len_utf8() <= n {
            end = i + c.len_utf8();
        } else {
            break;
        }
    }
    &s[..end]
}

fn check_df<const N: usize>(s: &str) -> Result<(), (String, String)> {
    let d = Df88591String::<N>::from(s);
    let want = ref_latin1(s, N);
    let got: Vec<u8> = d.iter().copied().collect();
    if d.len() != want.len() || d.len() != s.chars().count().min(N) {
        return Err((format!("c17:descriptor<{}>:length", N), format!("Df88591String<{}>::from keeps {} characters of a {}-character string (expected {})", N, d.len(), s.chars().count(), want.len())));
    }
    if got != want {
        let i = got.iter().zip(want.iter()).position(|(a, b)| a != b).unwrap_or(0);
        return Err((format!("c17:descriptor<{}>:bytes", N), format!("Df88591String<{}>::from: byte {} is {:#x}, expected {:#x} (char {:?})", N, i, got[i], want[i], s.chars().nth(i))));
    }
    let back: Vec<char> = d.chars().collect();
    let want_chars: Vec<char> = want.iter().map(|b| char::from_u32(*b as u32).unwrap()).collect();
    if back != want_chars {
        return Err((format!("c17:descriptor<{}>:chars", N), format!("Df88591String<{}>::chars() does not return the stored mapping", N)));
    }
    // the same through FromIterator and push_char
    let d2: Df88591String<N> = s.chars().collect();
    if d2 != d {
        return Err((format!("c17:descriptor<{}>:from-iter", N), "collect::<Df88591String>() differs from From<&str>".into()));
    }
    // FromIterator from iterators whose size_hint counts characters (a Vec<char>, a slice, take(k), an exact-size chain)
    {
        let v: Vec<char> = s.chars().collect();
        let d3: Df88591String<N> = v.iter().copied().collect();
        let d4: Df88591String<N> = v.clone().into_iter().collect();
        let d5: Df88591String<N> = s.chars().take(N + 2).collect();
        let d6: Df88591String<N> = v.iter().copied().take(N).chain(v.iter().copied().skip(N)).collect();
        if d3 != d || d4 != d || d5 != d || d6 != d {
            return Err((format!("c17:descriptor<{}>:from-iter", N), "collect::<Df88591String>() from a Vec<char> / slice / take(k) / chain differs from From<&str>".into()));
        }
    }
    // the other ways of reading the characters back: the iterator's own count/size_hint/nth/last, Display, a clone
    let n = want_chars.len();
    let nth_ok = [0usize, n / 2, n.saturating_sub(1), n, n + 1].iter().all(|k| d.chars().nth(*k) == want_chars.get(*k).copied());
    let skip_ok = [0usize, n.saturating_sub(1), n].iter().all(|k| d.chars().skip(*k).collect::<Vec<char>>() == want_chars.iter().skip(*k).copied().collect::<Vec<char>>());
    let step_ok = [1usize, 2, n.max(2) - 1, n.max(1)].iter().all(|k| d.chars().step_by(*k).collect::<Vec<char>>() == want_chars.iter().step_by(*k).copied().collect::<Vec<char>>());
    let mut two = d.chars();
    let first = two.next();
    let rest_ok = first == want_chars.first().copied() && two.nth(0) == want_chars.get(1).copied() && two.last() == if n > 2 { want_chars.last().copied() } else { None };
    if !nth_ok || !skip_ok || !step_ok || !rest_ok {
        return Err((format!("c17:descriptor<{}>:chars-iterator", N), format!("Df88591String<{}>::chars(): nth / skip / step_by / next-then-nth-then-last disagree with the {} stored characters (nth {}, skip {}, step_by {}, sequence {})", N, n, nth_ok, skip_ok, step_ok, rest_ok)));
    }
    if d.chars().count() != n || d.chars().size_hint() != (n, Some(n)) || d.chars().last() != want_chars.last().copied() || (n > 0 && d.chars().nth(n / 2) != Some(want_chars[n / 2])) {
        return Err((format!("c17:descriptor<{}>:chars-iterator", N), format!("Df88591String<{}>::chars(): count/size_hint/nth/last disagree with the {} stored characters", N, n)));
    }
    let shown = format!("{}", d);
    let want_str: String = want_chars.iter().collect();
    if !shown.contains(&want_str) {
        return Err((format!("c17:descriptor<{}>:display", N), format!("Display of Df88591String<{}> does not contain the stored characters", N)));
    }
    let c = d.clone();
    if c != d || c.iter().copied().collect::<Vec<u8>>() != want {
        return Err((format!("c17:descriptor<{}>:clone", N), "a clone differs from the original".into()));
    }
    // character by character through try_push: Ok for the first N, then Err with the content unchanged
    let mut t = Df88591String::<N>::new();
    for (i, ch) in s.chars().enumerate().take(N + 3) {
        let r = t.try_push(ch);
        if r.is_ok() != (i < N) || t.len() != (i + 1).min(N) {
            return Err((format!("c17:descriptor<{}>:try-push", N), format!("try_push of character {} returned {:?} with {} stored (capacity {})", i, r, t.len(), N)));
        }
    }
    if t.iter().copied().collect::<Vec<u8>>() != ref_latin1(s, N.min(s.chars().count().min(N + 3))) {
        return Err((format!("c17:descriptor<{}>:try-push", N), "characters pushed one by one are stored differently from From<&str>".into()));
    }
    Ok(())
}
fn check_as<const N: usize>(s: &str) -> Result<(), (String, String)> {
    let a = ArrayString::<N>::from(s);
    let want = ref_prefix(s, N);
    let r = catch(|| (&*a).to_string());
    let got = match r {
        Ok(g) => g,
        Err(p) => return Err((format!("c17:text<{}>:invalid-utf8", N), format!("ArrayString<{}>::from produced bytes that are not valid UTF-8: {}", N, p))),
    };
    if got != want {
        return Err((
            format!("c17:text<{}>:prefix", N),
            format!("ArrayString<{}>::from kept {} bytes ({} chars), the longest whole-character prefix has {} bytes ({} chars)", N, got.len(), got.chars().count(), want.len(), want.chars().count()),
        ));
    }
    let a2: ArrayString<N> = s.chars().collect();
    if a2 != a {
        return Err((format!("c17:text<{}>:from-iter", N), "collect::<ArrayString>() differs from From<&str>".into()));
    }
    // FromIterator from iterators whose size_hint counts characters (a Vec<char>, a slice, take(k), a chain)
    {
        let v: Vec<char> = s.chars().collect();
        let a3: ArrayString<N> = v.iter().copied().collect();
        let a4: ArrayString<N> = v.clone().into_iter().collect();
        let a5: ArrayString<N> = s.chars().take(N + 2).collect();
        let a6: ArrayString<N> = v.iter().copied().take(N / 4 + 1).chain(v.iter().copied().skip(N / 4 + 1)).collect();
        for (x, how) in [(&a3, "a slice iterator"), (&a4, "a Vec<char>"), (&a5, "chars().take(k)"), (&a6, "a chain")] {
            let got = catch(|| (&**x).to_string()).map_err(|p| (format!("c17:text<{}>:invalid-utf8", N), format!("collect from {} produced bytes that are not valid UTF-8: {}", how, p)))?;
            if got != want {
                return Err((format!("c17:text<{}>:from-iter", N), format!("collect::<ArrayString<{}>>() from {} keeps {:?}..., the longest whole-character prefix is {:?}...", N, how, got.chars().take(12).collect::<String>(), want.chars().take(12).collect::<String>())));
            }
        }
    }
    // the other ways of reading it back: AsRef<str>, Display, a clone; and character by character through try_push
    let asref: &str = a.as_ref();
    if asref != want || !format!("{}", a).contains(want) || a.clone() != a {
        return Err((format!("c17:text<{}>:read-back", N), format!("ArrayString<{}>: as_ref / Display / clone disagree with the kept prefix", N)));
    }
    let mut t = ArrayString::<N>::new();
    let mut used = 0usize;
    for ch in s.chars() {
        let fits = used + ch.len_utf8() <= N;
        let r = t.try_push(ch);
        if r.is_ok() != fits {
            return Err((format!("c17:text<{}>:try-push", N), format!("try_push of {:?} with {} of {} bytes used returned {:?}", ch, used, N, r)));
        }
        if !fits {
            break;
        }
        used += ch.len_utf8();
    }
    let tr = catch(|| (&*t).to_string()).map_err(|p| (format!("c17:text<{}>:invalid-utf8", N), format!("try_push produced bytes that are not valid UTF-8: {}", p)))?;
    if tr != want {
        return Err((format!("c17:text<{}>:try-push", N), "characters pushed one by one give a different text from From<&str>".into()));
    }
    Ok(())
}

/// util types alone
pub fn oracle_util(s: &str) -> Result<(), (String, String)> {
    check_df::<1>(s)?;
    check_df::<7>(s)?;
    check_df::<31>(s)?;
    check_df::<255>(s)?;
    check_as::<1>(s)?;
    check_as::<3>(s)?;
    check_as::<7>(s)?;
    check_as::<31>(s)?;
    check_as::<127>(s)?;
    check_as::<255>(s)?;
    Ok(())
}

/// 1029 through the message: round trip unchanged, >127 characters refused
pub fn oracle_1029(s: &str) -> Result<&'static str, (String, String)> {
    let text = ArrayString::<255>::from(s);
    let kept: String = (&*text).to_string();
    let m = Message::Msg1029(Msg1029T { reference_station_id: 77, modified_julian_day_number: 60000, seconds_of_day_s: 4242, text_str: text });
    let r = msggen::build(&m);
    let nchars = kept.chars().count();
    if nchars > 127 || kept.len() > 255 {
        return match r {
            Err(_) => Ok("1029-refused"),
            Ok(_) => Err(("c17:1029:long-text-accepted".into(), format!("text of {} characters / {} bytes was encoded", nchars, kept.len()))),
        };
    }
    let f = r.map_err(|e| ("c17:1029:refused".to_string(), format!("text of {} characters / {} bytes refused: {}", nchars, kept.len(), e)))?;
    // wire: character count, byte count, bytes
    let p = &f[3..f.len() - 3];
    let chars_w = crate::bits::get_bits(p, 57, 7).unwrap_or(999) as usize;
    let bytes_w = crate::bits::get_bits(p, 64, 8).unwrap_or(999) as usize;
    if chars_w != nchars || bytes_w != kept.len() {
        return Err(("c17:1029:counts".into(), format!("wire says {} characters / {} bytes for a text of {} / {}", chars_w, bytes_w, nchars, kept.len())));
    }
    if p.len() < 9 + kept.len() || &p[9..9 + kept.len()] != kept.as_bytes() {
        return Err(("c17:1029:bytes".into(), "text bytes on the wire differ from the UTF-8 form".into()));
    }
    match decode_frame(&f) {
        Some(back) if back == m => Ok("1029-roundtrip"),
        Some(back) => Err(("c17:1029:roundtrip".into(), format!("round trip changed the message: {:?}", crate::registry::variant_name(&back)))),
        None => Err(("c17:1029:frame".into(), "own frame rejected".into())),
    }
}

/// descriptor-bearing messages: every Str leaf of the Default message set to s (through the data model), round trip unchanged
pub fn oracle_descriptors(number: u16, s: &str) -> Result<&'static str, (String, String)> {
    let corp = msggen::corpus_get();
    let tc = corp.of(number).ok_or_else(|| ("c17:harness".to_string(), "no corpus".to_string()))?;
    // use a base that has list elements if any (1302 links)
    let base = tc.bases.iter().max_by_key(|b| format!("{:?}", b).len()).unwrap();
    let mut tree = base.clone();
    let mut all = Vec::new();
    base.walk(&mut Vec::new(), &mut all);
    let mut n = 0;
    for (path, node) in all {
        if matches!(node, Value::Str(_)) {
            *tree.get_mut(&path).unwrap() = Value::Str(s.to_string());
            n += 1;
        }
    }
    if n == 0 {
        return Ok("no-strings");
    }
    let m = value_to_message(&tree).map_err(|e| ("c17:harness".to_string(), e))?;
    // the stored descriptor must be the reference mapping (31 characters)
    let t2 = msggen::message_to_value(&m);
    let mut all2 = Vec::new();
    t2.walk(&mut Vec::new(), &mut all2);
    for (_, node) in &all2 {
        if let Value::Str(stored) = node {
            let want: String = ref_latin1(s, 31).iter().map(|b| char::from_u32(*b as u32).unwrap()).collect();
            if number != 1029 && *stored != want {
                return Err((format!("c17:{}:stored", number), format!("descriptor stored as {:?}, reference mapping {:?}", stored.chars().take(40).collect::<String>(), want.chars().take(40).collect::<String>())));
            }
        }
    }
    let f = match msggen::build(&m) {
        Ok(f) => f,
        Err(e) => return Err((format!("c17:{}:refused", number), format!("message with descriptor strings refused: {}", e))),
    };
    match decode_frame(&f) {
        Some(back) if back == m => Ok("descriptor-roundtrip"),
        Some(back) => {
            let d1 = format!("{:?}", m);
            let d2 = format!("{:?}", back);
            let pos = d1.chars().zip(d2.chars()).position(|(a, b)| a != b).unwrap_or(0);
            Err((format!("c17:{}:roundtrip", number), format!("round trip changed the message near: {}", d1.chars().skip(pos.saturating_sub(40)).take(100).collect::<String>())))
        }
        None => Err(("c17:harness".into(), "own frame rejected".into())),
    }
}

/// 1029 frame with arbitrary text bytes: invalid UTF-8 (or a byte count beyond the body) => Corrupt; valid => typed with that text
pub fn oracle_1029_frame(chars_field: u8, declared: u8, text: &[u8]) -> Result<&'static str, (String, String)> {
    let mut w = BitW::new();
    w.put(1029, 12);
    w.put(0x123, 12);
    w.put(59000, 16);
    w.put(1000, 17);
    w.put(chars_field as u64, 7);
    w.put(declared as u64, 8);
    w.put_bytes(text);
    let f = frame(&w.into_bytes());
    let m = decode_frame(&f).ok_or_else(|| ("c17:harness".to_string(), "own frame rejected".to_string()))?;
    let d = declared as usize;
    let expect_text: Option<&str> = if d <= text.len() { std::str::from_utf8(&text[..d]).ok() } else { None };
    match (&m, expect_text) {
        (Message::Corrupt, None) => Ok("1029-frame-corrupt"),
        (Message::Msg1029(t), Some(s)) if &*t.text_str == s => Ok("1029-frame-typed"),
        (Message::Msg1029(t), Some(s)) => Err(("c17:1029:decoded-text".into(), format!("decoded text {:?} differs from the frame's {:?}", (&*t.text_str).chars().take(30).collect::<String>(), s.chars().take(30).collect::<String>()))),
        (other, None) => Err(("c17:1029:invalid-utf8-accepted".into(), format!("frame with invalid UTF-8 / short body decodes to {}", crate::registry::variant_name(other)))),
        (other, Some(_)) => Err(("c17:1029:valid-text-rejected".into(), format!("frame with valid UTF-8 text decodes to {}", crate::registry::variant_name(other)))),
    }
}

pub fn char_strategy() -> impl Strategy<Value = char> {
    prop_oneof![
        4 => (0x20u32..0x7f).prop_map(|c| char::from_u32(c).unwrap()),
        3 => (0x80u32..0x100).prop_map(|c| char::from_u32(c).unwrap()),
        1 => Just('\0'),
        1 => (0x01u32..0x20).prop_map(|c| char::from_u32(c).unwrap()),
        2 => (0x100u32..0x800).prop_map(|c| char::from_u32(c).unwrap()),
        2 => (0x800u32..0xD800).prop_map(|c| char::from_u32(c).unwrap()),
        1 => (0x10000u32..0x10FFFF).prop_map(|c| char::from_u32(c).unwrap_or('\u{10000}')),
        1 => Just('\u{a4}'),
    ]
}
/// strings whose lengths cluster around the capacities 7, 31, 127/255
pub fn string_strategy() -> impl Strategy<Value = String> {
    prop_oneof![
        5 => plain_string_strategy(),
        1 => (any::<u64>(), prop_oneof![Just(7usize), Just(31usize), Just(127usize), Just(255usize), Just(400usize)]).prop_map(|(seed, cap)| {
            let mut r = crate::rng::Rng::new(seed);
            crate::msggen::gen_token_text(&mut r, cap)
        }),
        // a run of equally wide characters that just fills or just overflows a byte capacity, then a few narrower ones
        // ("the longest prefix of whole characters": a narrower character after the one that did not fit must not be kept)
        1 => (
            prop_oneof![Just(3usize), Just(7usize), Just(31usize), Just(127usize), Just(255usize)],
            2usize..5,
            0usize..3,
            prop::collection::vec(char_strategy(), 0..4),
            any::<u32>(),
        )
            .prop_map(|(cap, width, over, tail, pick)| {
                let wide = match width {
                    2 => char::from_u32(0x100 + pick % 0x700).unwrap_or('\u{100}'),
                    3 => char::from_u32(0x800 + pick % 0xC000).filter(|c| c.len_utf8() == 3).unwrap_or('\u{20AC}'),
                    _ => char::from_u32(0x10000 + pick % 0xFFFFF).unwrap_or('\u{1F600}'),
                };
                let mut s: String = std::iter::repeat(wide).take(cap / width + over).collect();
                s.push('a');
                s.extend(tail);
                s
            }),
    ]
}
fn plain_string_strategy() -> impl Strategy<Value = String> {
    let around = prop_oneof![0usize..4, 5usize..10, 28usize..35, 60usize..70, 120usize..135, 250usize..262, 0usize..300];
    (around, prop::collection::vec(char_strategy(), 300), any::<u8>()).prop_map(|(len, chars, style)| {
        let mut s: String = String::new();
        for (i, c) in chars.iter().take(len).enumerate() {
            // style: mostly ASCII with a multi-byte character at the end (straddles a byte capacity)
            let ch = if style % 4 == 0 && i + 2 < len { 'a' } else { *c };
            s.push(ch);
        }
        s
    })
}

const DESC_MSGS: &[u16] = &[1007, 1008, 1021, 1022, 1033, 1300, 1301, 1302];

pub fn run(ctx: &Ctx, replay: Option<&J>) -> CheckResult {
    let rule = "proptest strings (ASCII, Latin-1 high half, NUL and control characters, 2/3/4-byte characters, lengths clustered around 7, 31, 127 and 255 incl. strings that are ASCII \
        up to a multi-byte character straddling the capacity, and runs of 2/3/4-byte characters that just fill or overflow a capacity followed by narrower characters): Df88591String<N>::from for N in {1,7,31,255} against the reference mapping (first N characters, 1..255 -> byte, else \
        0xA4, chars() back), ArrayString<N>::from for N in {1,3,7,31,127,255} against the longest whole-character prefix of <=N bytes (valid UTF-8), the same via FromIterator (from chars(), a Vec<char>, a slice iterator, take(k), a chain), try_push, Display, AsRef, clone and the chars() iterator's own methods; \
        message round trips for 1029 (wire counts, bytes, >127 characters refused) and every string field of 1007/1008/1021/1022/1033/1300/1301/1302; 1029 frames with arbitrary \
        text bytes: invalid UTF-8 or a byte count beyond the body => Corrupt, valid => typed with that text. non-trivial = string with a non-ASCII character or longer than a capacity; \
        distinct = hash of the string"
        .to_string();
    let assumptions = vec!["reference mapping and prefix are computed with std char/str primitives".to_string()];
    let _ = corpus(ctx.seed);
    if let Some(c) = replay {
        let mut ev = Evidence::new();
        ev.eval();
        let mut vs = Vec::new();
        let r = if c["kind"] == "text-frame" {
            let t = unhex(c["text"].as_str().unwrap_or("")).unwrap_or_default();
            oracle_1029_frame(c["chars"].as_u64().unwrap_or(0) as u8, c["declared"].as_u64().unwrap_or(0) as u8, &t).map(|_| ())
        } else {
            let s: String = c["chars"].as_array().map(|a| a.iter().filter_map(|x| x.as_u64()).filter_map(|x| char::from_u32(x as u32)).collect()).unwrap_or_default();
            one_string(&s).map(|_| ())
        };
        if let Err((sig, msg)) = r {
            vs.push(Violation { property: "C17".into(), signature: sig, message: msg, case: c.clone() });
        }
        return CheckResult { evidence: ev, rule, assumptions, violations: vs };
    }
    let cases = ctx.n(400_000, 12_000_000);
    let (mut ev, mut vs) = pt_run(
        ctx,
        "c17",
        cases,
        string_strategy,
        |s: &String, ev| {
            let r = one_string(s);
            if let (Ok(classes), Some(ev)) = (&r, ev) {
                let nontrivial = !s.is_ascii() || s.chars().count() > 7;
                if nontrivial {
                    ev.nontrivial_bytes(s.as_bytes());
                }
                for c in classes {
                    ev.class(c);
                }
                if !s.is_ascii() {
                    ev.class("string/non-ascii");
                }
                let n = s.chars().count();
                ev.class(if n > 255 { "string/chars>255" } else if n > 127 { "string/chars 128..255" } else if n > 31 { "string/chars 32..127" } else if n > 7 { "string/chars 8..31" } else { "string/chars 0..7" });
                if nontrivial && ev.want_sample() && n < 40 {
                    ev.sample(json!({"string":s,"chars":n,"utf8_bytes":s.len()}));
                }
            }
            r.map(|_| ())
        },
        |s| json!({"kind":"string","chars":s.chars().map(|c| c as u32).collect::<Vec<u32>>(),"approx":s}),
    );
    // 1029 frames with arbitrary text bytes
    let frames = ctx.n(400_000, 12_000_000);
    let (fev, fvs) = pt_run(
        ctx,
        "c17-frames",
        frames,
        || {
            (
                any::<u8>(),
                prop_oneof![
                    string_strategy().prop_map(|s| { let mut b = s.into_bytes(); b.truncate(255); b }),
                    prop::collection::vec(any::<u8>(), 0..80),
                    (string_strategy(), any::<u16>(), any::<u8>()).prop_map(|(s, pos, byte)| {
                        let mut b = s.into_bytes();
                        b.truncate(255);
                        if !b.is_empty() {
                            let i = (pos as usize * b.len()) >> 16;
                            b[i] = byte;
                        }
                        b
                    }),
                ],
                prop_oneof![Just(0i16), Just(0i16), Just(-1i16), Just(1i16), -300i16..300],
            )
        },
        |(chars, text, delta): &(u8, Vec<u8>, i16), ev| {
            let declared = (text.len() as i32 + *delta as i32).clamp(0, 255) as u8;
            let r = oracle_1029_frame(*chars & 0x7f, declared, text);
            if let (Ok(c), Some(ev)) = (&r, ev) {
                ev.class(c);
                let mut key = text.clone();
                key.push(declared);
                ev.nontrivial_bytes(&key);
            }
            r.map(|_| ())
        },
        |(chars, text, delta)| json!({"kind":"text-frame","chars":*chars & 0x7f,"declared":(text.len() as i32 + *delta as i32).clamp(0,255),"text":hex(text)}),
    );
    ev.merge(fev);
    vs.extend(fvs);
    CheckResult { evidence: ev, rule, assumptions, violations: vs }
}

pub fn one_string(s: &str) -> Result<Vec<&'static str>, (String, String)> {
    oracle_util(s)?;
    let mut classes = vec![oracle_1029(s)?];
    // descriptor messages: rotate through them by string hash to keep the cost per case bounded
    let h = hash_bytes(s.as_bytes());
    for k in 0..2 {
        let n = DESC_MSGS[((h >> (8 * k)) % DESC_MSGS.len() as u64) as usize];
        classes.push(oracle_descriptors(n, s)?);
    }
    Ok(classes)
}
