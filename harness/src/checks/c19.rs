//! C19 — every message feature can be selected on its own, with or without std (configuration enumeration).
use crate::bits::hex;
use crate::infra::*;
use crate::msggen::{self, decode_frame};
use crate::registry::{self, CARGO_MSG_FEATURES, MSG_TABLE, REPO_PATH};
use rayon::prelude::*;
use serde_json::{json, Value as J};
use std::path::{Path, PathBuf};
use std::process::Command;

fn cargo(dir: &Path, target: &Path, args: &[&str]) -> (bool, String) {
    let out = Command::new("cargo")
        .current_dir(dir)
        .args(args)
        .env("CARGO_TARGET_DIR", target)
        .env("CARGO_NET_OFFLINE", "true")
        .env_remove("RUSTFLAGS")
        .env("RUSTFLAGS", "-Awarnings")
        .output();
    match out {
        Ok(o) => {
            let mut s = String::from_utf8_lossy(&o.stderr).to_string();
            s.push_str(&String::from_utf8_lossy(&o.stdout));
            (o.status.success(), s)
        }
        Err(e) => (false, format!("cannot run cargo: {}", e)),
    }
}

fn first_error(log: &str) -> String {
    let mut out = String::new();
    let mut take = 0;
    for l in log.lines() {
        if l.starts_with("error") {
            take = 6;
        }
        if take > 0 {
            out.push_str(l);
            out.push('\n');
            take -= 1;
            if out.len() > 900 {
                break;
            }
        }
    }
    if out.is_empty() {
        log.lines().rev().take(6).collect::<Vec<_>>().into_iter().rev().collect::<Vec<_>>().join("\n")
    } else {
        out
    }
}

/// build configuration: feature list (without default features)
#[derive(Clone, Debug)]
pub struct Config {
    pub name: String,
    pub features: Vec<String>,
}

/// the build half: `cargo check --lib --no-default-features --features ...` of the crate itself
pub fn check_builds(cfg: &Config, target: &Path) -> Result<(), (String, String)> {
    let feats = cfg.features.join(",");
    let mut args = vec!["check", "--lib", "--no-default-features", "--offline", "--quiet"];
    if !feats.is_empty() {
        args.push("--features");
        args.push(&feats);
    }
    let (ok, log) = cargo(Path::new(REPO_PATH), target, &args);
    if ok {
        Ok(())
    } else {
        Err((format!("c19:build:{}", cfg.name), format!("configuration [{}] without default features (no std) does not build:\n{}", feats, first_error(&log))))
    }
}

/// no-std half, part 2: in the resolved feature graph of a selection without default features no target dependency may have
/// its `std` or `alloc` feature switched on (the host build would still succeed, a build for a target without std would not)
pub fn check_feature_graph(cfg: &Config, target: &Path) -> Result<(), (String, String)> {
    let feats = cfg.features.join(",");
    let mut args = vec!["tree", "--offline", "--no-default-features", "-e", "features", "--prefix", "none"];
    if !feats.is_empty() {
        args.push("--features");
        args.push(&feats);
    }
    let (ok, log) = cargo(Path::new(REPO_PATH), target, &args);
    if !ok {
        return Err((format!("c19:feature-graph:{}", cfg.name), format!("cargo tree failed for [{}]: {}", feats, first_error(&log))));
    }
    const HOST_ONLY: &[&str] = &["proc-macro2", "quote", "syn", "unicode-ident", "serde_derive", "zerocopy-derive", "autocfg", "version_check"];
    let mut bad: Vec<String> = Vec::new();
    for l in log.lines() {
        let l = l.trim();
        let mut it = l.split_whitespace();
        let (name, kw, feat) = (it.next().unwrap_or(""), it.next().unwrap_or(""), it.next().unwrap_or(""));
        if kw == "feature" && (feat == "\"std\"" || feat == "\"alloc\"") && !HOST_ONLY.contains(&name) && name != "rtcm-rs" {
            let e = format!("{} {}", name, feat);
            if !bad.contains(&e) {
                bad.push(e);
            }
        }
    }
    if bad.is_empty() {
        Ok(())
    } else {
        Err((
            format!("c19:dependency-needs-std:{}", cfg.name),
            format!("selection [{}] without default features resolves dependencies with std/alloc switched on: {}", feats, bad.join(", ")),
        ))
    }
}

/// the behavioural half: driver built with only that feature decodes the frame file
pub fn check_behaviour(cfg: &Config, verif: &Path, target: &Path, frames_file: &Path, expected: &[(u16, String)]) -> Result<usize, (String, String)> {
    let feats: Vec<String> = cfg.features.iter().map(|f| format!("rtcm-rs/{}", f)).collect();
    let feats = feats.join(",");
    let drv = verif.join("featdrv");
    let mut args = vec!["build", "--offline", "--quiet"];
    if !feats.is_empty() {
        args.push("--features");
        args.push(&feats);
    }
    let (ok, log) = cargo(&drv, target, &args);
    if !ok {
        return Err((format!("c19:driver-build:{}", cfg.name), format!("driver with [{}] does not build/link:\n{}", feats, first_error(&log))));
    }
    let bin = target.join("debug").join("featdrv");
    let out = Command::new(&bin).arg(frames_file).output().map_err(|e| ("c19:infra".to_string(), format!("cannot run driver: {}", e)))?;
    if !out.status.success() {
        return Err((format!("c19:driver-crash:{}", cfg.name), format!("driver for [{}] ended with {:?}: {}", feats, out.status.code(), String::from_utf8_lossy(&out.stderr).chars().take(400).collect::<String>())));
    }
    let text = String::from_utf8_lossy(&out.stdout);
    let lines: Vec<&str> = text.lines().collect();
    if lines.len() != expected.len() + 2 {
        return Err((format!("c19:driver-output:{}", cfg.name), format!("driver printed {} lines for {} frames (+2 stream verdicts)", lines.len(), expected.len())));
    }
    // the same frames through this build's stream API (iterator over the concatenation, caller loop with small chunks)
    for v in &lines[expected.len()..] {
        if !v.contains(" same ") {
            return Err((format!("c19:stream-behaviour:{}", cfg.name), format!("build with [{}]: {}", cfg.features.join(","), v.chars().take(400).collect::<String>())));
        }
    }
    let own: Vec<u16> = cfg.features.iter().filter_map(|f| f.strip_prefix("msg").and_then(|n| n.parse().ok())).collect();
    let all = cfg.features.iter().any(|f| f == "all_msgs");
    let mut typed = 0usize;
    for (i, (number, full)) in expected.iter().enumerate() {
        let want = if all || own.contains(number) {
            full.clone()
        } else if full == "Empty" {
            full.clone()
        } else {
            format!("MsgNotSupported(MsgNotSupportedT {{ message_number: {} }})", number)
        };
        if lines[i] != want && lines[i].split('\t').next() == want.split('\t').next() {
            return Err((
                format!("c19:behaviour:{}", cfg.name),
                format!(
                    "build with [{}]: frame {} (number {}) decodes to the same message as in the full build, but encoding that message again gives {} instead of {}",
                    cfg.features.join(","),
                    i,
                    number,
                    lines[i].split('\t').nth(1).unwrap_or("nothing").chars().take(80).collect::<String>(),
                    want.split('\t').nth(1).unwrap_or("nothing").chars().take(80).collect::<String>()
                ),
            ));
        }
        if lines[i] != want {
            return Err((
                format!("c19:behaviour:{}", cfg.name),
                format!(
                    "build with [{}]: frame {} (number {}) decodes to `{}`, expected `{}`",
                    cfg.features.join(","),
                    i,
                    number,
                    lines[i].chars().take(160).collect::<String>(),
                    want.chars().take(160).collect::<String>()
                ),
            ));
        }
        if (all || own.contains(number)) && full.starts_with("Msg") {
            typed += 1;
        }
    }
    Ok(typed)
}

pub fn run(ctx: &Ctx, replay: Option<&J>) -> CheckResult {
    let rule = "configurations enumerated: every msgNNNN feature of /repo/Cargo.toml alone, the empty selection, all_msgs without std, all_msgs+serde without std, and every \
        single feature together with serde; each is built with `cargo check --lib --no-default-features` (the crate is then #![no_std]) — all of them in both tiers (exhaustive); for each, the resolved feature graph (`cargo tree -e features`) must not switch on `std`/`alloc` of any target dependency. Behavioural half: a \
        driver linked against the single-feature build decodes a frame file produced by the full-feature harness (golden + generated + hostile frames of all types with the full build's Debug \
        rendering): frames of its own type must render identically and encode again to the same bytes as in the full build, every other number must be MsgNotSupported{n}, and the same frames concatenated and read through that build's MsgFrameIter and through the chunked caller loop must give the same renderings in the same order; in both tiers for every single-feature configuration, the empty one and all_msgs (thorough adds the serde variants). non-trivial = configuration that compiles and decodes >=1 typed frame; distinct = configuration"
        .to_string();
    let assumptions = vec![
        "no bare-metal target is installed: 'without the standard library' is checked as #![no_std] compilation for the host triple".to_string(),
        "dependencies are those pinned by /repo/Cargo.lock, built with default-features = false".to_string(),
    ];
    let work = ctx.verif_dir.join(".work").join("c19");
    let _ = std::fs::create_dir_all(&work);
    let mut ev = Evidence::new();
    let mut vs: Vec<Violation> = Vec::new();

    // configurations
    let feats: Vec<String> = CARGO_MSG_FEATURES.iter().map(|s| s.to_string()).collect();
    let mut configs: Vec<Config> = feats.iter().map(|f| Config { name: f.clone(), features: vec![f.clone()] }).collect();
    configs.push(Config { name: "empty".into(), features: vec![] });
    configs.push(Config { name: "all_msgs-nostd".into(), features: vec!["all_msgs".into()] });
    configs.push(Config { name: "all_msgs+serde-nostd".into(), features: vec!["all_msgs".into(), "serde".into()] });
    let mut rng = ctx.rng("c19", 0);
    // every single feature also together with serde (build half exhaustive; the behavioural half samples them in quick)
    let nserde = feats.len();
    let mut pick = feats.clone();
    rng.shuffle(&mut pick);
    for f in pick.iter().take(nserde) {
        configs.push(Config { name: format!("{}+serde", f), features: vec![f.clone(), "serde".into()] });
    }
    configs.push(Config { name: "serde-only".into(), features: vec!["serde".into()] });

    if let Some(c) = replay {
        let name = c["config"].as_str().unwrap_or("");
        let feats: Vec<String> = c["features"].as_array().map(|a| a.iter().filter_map(|x| x.as_str()).map(|s| s.to_string()).collect()).unwrap_or_default();
        let cfg = Config { name: name.to_string(), features: feats };
        ev.eval();
        if c["half"] == "feature-graph" {
            if let Err((sig, msg)) = check_feature_graph(&cfg, &work.join("t-replay")) {
                vs.push(Violation { property: "C19".into(), signature: sig, message: msg, case: c.clone() });
            }
        } else if let Err((sig, msg)) = check_builds(&cfg, &work.join("t-replay")) {
            vs.push(Violation { property: "C19".into(), signature: sig, message: msg, case: c.clone() });
        } else if c["half"] == "behaviour" {
            let (file, expected) = write_frames(ctx, &work);
            if let Err((sig, msg)) = check_behaviour(&cfg, &ctx.verif_dir, &work.join("t-replay"), &file, &expected) {
                vs.push(Violation { property: "C19".into(), signature: sig, message: msg, case: c.clone() });
            }
        }
        return CheckResult { evidence: ev, rule, assumptions, violations: vs };
    }

    // ---- build half: all configurations, 16 workers with private target dirs ----
    const WORKERS: usize = 16;
    let results: Vec<(usize, Result<(), (String, String)>)> = (0..WORKERS)
        .into_par_iter()
        .flat_map(|w| {
            let target = work.join(format!("t{}", w));
            let mut out = Vec::new();
            let mut i = w;
            while i < configs.len() {
                out.push((i, check_builds(&configs[i], &target)));
                i += WORKERS;
            }
            out
        })
        .collect();
    // feature graph of every configuration
    let graph: Vec<(usize, Result<(), (String, String)>)> = (0..configs.len()).into_par_iter().map(|i| (i, check_feature_graph(&configs[i], &work.join(format!("t{}", i % WORKERS))))).collect();
    for (i, r) in graph {
        ev.evaluations += 1;
        match r {
            Ok(()) => ev.class("feature-graph/no-std-or-alloc-in-dependencies"),
            Err((sig, msg)) => {
                if ctx.is_known(&sig) {
                    ev.excluded_known += 1;
                } else {
                    vs.push(Violation { property: "C19".into(), signature: sig, message: msg, case: json!({"kind":"config","half":"feature-graph","config":configs[i].name,"features":configs[i].features}) });
                }
            }
        }
    }
    let mut built_ok = vec![false; configs.len()];
    for (i, r) in results {
        ev.evaluations += 1;
        match r {
            Ok(()) => {
                built_ok[i] = true;
                ev.class("build/ok");
            }
            Err((sig, msg)) => {
                if ctx.is_known(&sig) {
                    ev.excluded_known += 1;
                } else {
                    vs.push(Violation { property: "C19".into(), signature: sig, message: msg, case: json!({"kind":"config","half":"build","config":configs[i].name,"features":configs[i].features}) });
                }
            }
        }
    }
    // ---- behavioural half ----
    let (file, expected) = write_frames(ctx, &work);
    let mut behav: Vec<usize> = Vec::new();
    let idx_of = |name: &str| configs.iter().position(|c| c.name == name);
    // every single-feature configuration, the empty one and all_msgs without std; thorough adds the serde variants
    let _ = idx_of;
    for (i, c) in configs.iter().enumerate() {
        let with_serde = c.features.iter().any(|f| f == "serde");
        if c.name == "all_msgs+serde-nostd" {
            continue;
        }
        if !with_serde || ctx.tier == Tier::Thorough || c.features.len() == 2 && i % 12 == 0 {
            behav.push(i);
        }
    }
    behav.retain(|i| built_ok[*i]);
    let bres: Vec<(usize, Result<usize, (String, String)>)> = (0..WORKERS)
        .into_par_iter()
        .flat_map(|w| {
            let target = work.join(format!("d{}", w));
            let mut out = Vec::new();
            let mut k = w;
            while k < behav.len() {
                let i = behav[k];
                out.push((i, check_behaviour(&configs[i], &ctx.verif_dir, &target, &file, &expected)));
                k += WORKERS;
            }
            out
        })
        .collect();
    let mut nontrivial = 0u64;
    for (i, r) in bres {
        ev.evaluations += expected.len() as u64;
        match r {
            Ok(typed) => {
                ev.class("behaviour/ok");
                if typed >= 1 {
                    nontrivial += 1;
                    if ev.want_sample() {
                        ev.sample(json!({"config":configs[i].name,"features":configs[i].features,"typed_frames_decoded":typed,"frames_in_file":expected.len()}));
                    }
                } else if ev.want_sample() && configs[i].name == "empty" {
                    ev.sample(json!({"config":"empty","features":[],"typed_frames_decoded":0,"all_frames_reported_unsupported":true}));
                }
            }
            Err((sig, msg)) => {
                if ctx.is_known(&sig) {
                    ev.excluded_known += 1;
                } else {
                    vs.push(Violation { property: "C19".into(), signature: sig, message: msg, case: json!({"kind":"config","half":"behaviour","config":configs[i].name,"features":configs[i].features}) });
                }
            }
        }
    }
    // distinct non-trivial: configurations that build (build half) counted once each + behavioural ones with typed frames
    ev.distinct_by_construction = built_ok.iter().filter(|b| **b).count() as u64;
    ev.extra.insert("configurations_built".into(), json!(configs.len()));
    ev.extra.insert("configurations_with_driver".into(), json!(behav.len()));
    ev.extra.insert("driver_configs_decoding_typed_frames".into(), json!(nontrivial));
    ev.extra.insert("frames_in_file".into(), json!(expected.len()));
    ev.exhaustive = Some(true);
    ev.extra.insert("exhaustive_subdomain".into(), json!("build half: every single-feature configuration, empty, all_msgs without std (+serde); behavioural half: all single-feature configurations, empty, all_msgs (serde variants: sample in quick, all in thorough)"));
    // the feature list itself must match the message table (else a feature could be missing from the enumeration)
    let mut t: Vec<&str> = MSG_TABLE.iter().map(|r| r.feature).collect();
    let mut f: Vec<&str> = CARGO_MSG_FEATURES.to_vec();
    t.sort();
    f.sort();
    if t != f {
        vs.push(Violation { property: "C19".into(), signature: "c19:features-vs-table".into(), message: "msgNNNN features of Cargo.toml and rows of the message table differ".into(), case: json!({"kind":"table"}) });
    }
    let _ = registry::supported_numbers();
    vs.truncate(10);
    CheckResult { evidence: ev, rule, assumptions, violations: vs }
}

/// frame file from the full-feature build: golden + generated + a few hostile frames per type
fn write_frames(ctx: &Ctx, work: &Path) -> (PathBuf, Vec<(u16, String)>) {
    let golden = crate::pool::golden_frames();
    let mut lines = String::new();
    let mut expected: Vec<(u16, String)> = Vec::new();
    let mut add = |f: &[u8], lines: &mut String, expected: &mut Vec<(u16, String)>| {
        if let Ok(Some(m)) = catch(|| decode_frame(f)) {
            let n = if f.len() >= 8 { crate::bits::get_bits(&f[3..], 0, 12).unwrap_or(0) as u16 } else { 0 };
            // Debug rendering plus, for typed messages, the frame the full build produces when it encodes the decoded
            // message again (C01's normal form as observed in the full build)
            let dbg = if msggen::is_typed(&m) {
                let re = match catch(|| msggen::build(&m)) {
                    Ok(Ok(b)) => hex(&b),
                    _ => "ERR".to_string(),
                };
                format!("{:?}\t{}", m, re)
            } else {
                format!("{:?}", m)
            };
            lines.push_str(&hex(f));
            lines.push('\n');
            expected.push((n, dbg));
        }
    };
    for row in MSG_TABLE {
        let mut rng = ctx.rng("c19-frames", row.number as u64);
        for (name, f) in &golden {
            if name.starts_with(&format!("msg{}_", row.number)) {
                add(f, &mut lines, &mut expected);
            }
        }
        for _ in 0..4 {
            if let Some(f) = msggen::generated_frame(&mut rng, row.number, 0) {
                add(&f, &mut lines, &mut expected);
            }
        }
        for _ in 0..3 {
            let (p, _) = msggen::synth_payload(&mut rng, row.number);
            add(&crate::frame::frame(&p), &mut lines, &mut expected);
        }
    }
    // count fields above the capacity followed by padding-like bodies (all 0x00, all 0x20, all 0xFF): every build must
    // agree on them with the full build (lenient special cases are easily gated on the wrong feature)
    for row in MSG_TABLE {
        if let Some((off, width, cap)) = msggen::count_field(row.number) {
            let maxv = (1usize << width) - 1;
            if maxv <= cap {
                continue;
            }
            let head_len = (off + width + 7) / 8;
            for v in [cap + 1, (cap + 1 + maxv) / 2, maxv] {
                for fill in [0x00u8, 0x20, 0xFF] {
                    let mut p = vec![0u8; head_len];
                    crate::bits::set_bits(&mut p, 0, 12, row.number as u64);
                    crate::bits::set_bits(&mut p, off, width, v as u64);
                    // the bits of the head byte after the count field take the fill too
                    let used = off + width;
                    for b in used..head_len * 8 {
                        if (fill >> (7 - b % 8)) & 1 == 1 {
                            p[b / 8] |= 0x80 >> (b % 8);
                        }
                    }
                    p.extend(std::iter::repeat(fill).take(300));
                    add(&crate::frame::frame(&p), &mut lines, &mut expected);
                }
            }
        }
    }
    // frames of unsupported numbers and an empty frame
    add(&crate::frame::frame(&[0x3E, 0x80, 1, 2, 3]), &mut lines, &mut expected);
    add(&crate::frame::frame(&[]), &mut lines, &mut expected);
    let path = work.join("frames.txt");
    let _ = std::fs::write(&path, lines);
    (path, expected)
}
