//! C01 — encode/decode normal form: what the encoder writes, the decoder reads back.
use crate::biasmsg::BiasMsg;
use crate::bits::{hex, unhex};
use crate::infra::*;
use crate::msggen::{self, any_frame, bias_msg_of, build, corpus, decode_frame, is_typed, recipe_strategy, run_recipe, value_to_message, OpClass, Recipe};
use crate::registry::{self, MSG_TABLE};
use crate::value::{Step, Value};
use rayon::prelude::*;
use rtcm_rs::prelude::*;
use serde_json::{json, Value as J};

/// the stated precondition, evaluated on the *input* message: no duplicate (satellite, signal) key and no
/// unrecognised signal in a 1059/1065/1230 bias list
pub fn precondition(number: u16, tree: &Value) -> bool {
    let bm = match bias_msg_of(number) {
        Some(b) => b,
        None => return true,
    };
    let field = if bm == BiasMsg::M1230 { "glo_code_phase_biases" } else { "biases" };
    let items = match tree.get(&[Step::Inner, Step::Field(field), Step::Inner]) {
        Some(Value::Seq(s)) => s,
        _ => return true,
    };
    let mut seen: Vec<(u8, u8, char)> = Vec::new();
    for e in items {
        let sat = match e.get(&[Step::Field("satellite_id")]) {
            Some(Value::U8(s)) => *s,
            _ => 0,
        };
        let (band, attr) = match crate::msm::row_sig(e) {
            Some(x) => x,
            None => return false,
        };
        if !bm.signals().iter().any(|(_, b, a)| *b == band && *a == attr) {
            return false;
        }
        if seen.contains(&(sat, band, attr)) {
            return false;
        }
        seen.push((sat, band, attr));
    }
    true
}

/// canonical form for the fixed-point comparison: 1059/1065 entries stably sorted by satellite
pub fn canon(m: &Message) -> Message {
    let mut m = m.clone();
    match &mut m {
        Message::Msg1059(t) => t.biases.as_mut_slice().sort_by_key(|b| b.satellite_id),
        Message::Msg1065(t) => t.biases.as_mut_slice().sort_by_key(|b| b.satellite_id),
        _ => {}
    }
    m
}

/// (A) a message the encoder accepts. Ok(Some(f1)) accepted and fine, Ok(None) refused by the encoder.
pub fn oracle_a(m: &Message, tree: &Value) -> Result<Option<Vec<u8>>, (String, String)> {
    oracle_a_with(m, tree, None)
}

/// `before`: the builder that encodes m was used once before for that message (the property quantifies over messages,
/// not over fresh builders)
pub fn oracle_a_with(m: &Message, tree: &Value, before: Option<&Message>) -> Result<Option<Vec<u8>>, (String, String)> {
    let name = registry::variant_name(m);
    let number = msggen::number_of_variant_name(name).unwrap_or(0);
    let r = catch(|| -> Result<Option<Vec<u8>>, (String, String)> {
        let built = match before {
            None => build(m),
            Some(d) => {
                let mut b = MessageBuilder::new();
                crate::msggen::use_builder_before(&mut b, d);
                b.build_message(m).map(|f| f.to_vec()).map_err(|e| format!("{:?}", e))
            }
        };
        let f1 = match built {
            Ok(f) => f,
            Err(_) => return Ok(None),
        };
        let m1 = decode_frame(&f1).ok_or_else(|| ("c01:own-frame-not-a-frame".to_string(), format!("{}: the built frame is not accepted as a frame", name)))?;
        let n1 = registry::variant_name(&m1);
        if n1 != name {
            return Err((format!("c01:decodes-to-{}", if is_typed(&m1) { "other-variant" } else { n1 }), format!("{}: the frame the encoder produced decodes to {}", name, n1)));
        }
        let f2 = match build(&m1) {
            Ok(f) => f,
            Err(e) => return Err(("c01:decoded-message-refused".into(), format!("{}: re-encoding the decoded message failed: {}", name, e))),
        };
        if precondition(number, tree) {
            if f2 != f1 {
                return Err((
                    "c01:reencode-differs".into(),
                    format!("{}: re-encoding the decoded message does not reproduce the frame ({} vs {} bytes; first difference at byte {})", name, f1.len(), f2.len(), f1.iter().zip(f2.iter()).position(|(a, b)| a != b).unwrap_or(f1.len().min(f2.len()))),
                ));
            }
        } else {
            let m2 = decode_frame(&f2);
            if m2.as_ref() != Some(&m1) {
                return Err(("c01:twice-decoded-differs".into(), format!("{}: decode(encode(decode(encode(m)))) differs from decode(encode(m))", name)));
            }
        }
        Ok(Some(f1))
    });
    match r {
        Ok(x) => x,
        Err(p) => Err((panic_signature(&p), format!("{}: panic: {}", name, p))),
    }
}

/// (B) a message obtained by decoding a frame is a fixed point when the encoder accepts it
pub fn oracle_b(frame: &[u8]) -> Result<&'static str, (String, String)> {
    let r = catch(|| -> Result<&'static str, (String, String)> {
        let m = match decode_frame(frame) {
            Some(m) => m,
            None => return Ok("not-a-frame"),
        };
        if !is_typed(&m) {
            return Ok("not-typed");
        }
        let name = registry::variant_name(&m);
        let f1 = match build(&m) {
            Ok(f) => f,
            Err(_) => return Ok("refused"),
        };
        let m1 = decode_frame(&f1).ok_or_else(|| ("c01:own-frame-not-a-frame".to_string(), format!("{}: built frame not accepted", name)))?;
        if registry::variant_name(&m1) != name {
            return Err((format!("c01:decodes-to-{}", if is_typed(&m1) { "other-variant" } else { registry::variant_name(&m1) }), format!("{}: encoding of a decoded message decodes to {}", name, registry::variant_name(&m1))));
        }
        if canon(&m1) != canon(&m) {
            return Err(("c01:not-a-fixed-point".into(), format!("{}: decode(encode(m)) != m for a message m obtained by decoding a frame", name)));
        }
        let f2 = build(&m1).map_err(|e| ("c01:decoded-message-refused".to_string(), format!("{}: {}", name, e)))?;
        if f2 != f1 {
            return Err(("c01:reencode-differs".into(), format!("{}: encode(decode(encode(m))) != encode(m) for a decoded m", name)));
        }
        Ok("fixed-point")
    });
    match r {
        Ok(x) => x,
        Err(p) => Err((panic_signature(&p), format!("panic: {}", p))),
    }
}

pub fn run(ctx: &Ctx, replay: Option<&J>) -> CheckResult {
    let rule = "(A) proptest recipes over all supported types (base = Default / decoded golden, generated or synthesised frame; up to 8 type-directed mutations: off-grid \
        and out-of-range values, NaN/inf, toggled options, permuted/duplicated/filled lists, arbitrary text and signal descriptors) for which build_message succeeds: \
        the frame decodes to the same variant, the decoded message re-encodes, byte-identically when the input satisfies the stated precondition (checked on the \
        input), else decode(f2)==decode(f1); each accepted recipe is checked a second time with the frame produced by a builder that was used once before (refused early / refused late / long frame). (B) frames from the decoder-side generators (golden, crate generator, structure-aware synthesiser, havoc) that decode \
        to a typed message accepted by the encoder: decode(encode(m)) == m up to the order of 1059/1065 satellite groups, encode(decode(encode(m))) == encode(m). \
        non-trivial: (A) accepted and >=1 mutation changed the tree, (B) typed decode of a frame not produced by build_message in this run; distinct = hash(number, frame)"
        .to_string();
    let assumptions = vec![
        "only decoded messages are compared with ==, so NaN in inputs cannot cause a false alarm".to_string(),
        "precondition predicate uses the SSR signal tables pinned in the harness (biasmsg.rs)".to_string(),
    ];
    if let Some(c) = replay {
        let mut ev = Evidence::new();
        ev.eval();
        let mut vs = Vec::new();
        if c["kind"] == "frame" {
            let f = unhex(c["bytes"].as_str().unwrap_or("")).unwrap_or_default();
            if let Err((sig, msg)) = oracle_b(&f) {
                vs.push(Violation { property: "C01".into(), signature: sig, message: msg, case: c.clone() });
            }
        } else if let Some(tree) = c.get("value").and_then(Value::from_json) {
            let before = c.get("builder_used_before_for").and_then(Value::from_json).and_then(|t| value_to_message(&t).ok());
            if let Ok(m) = value_to_message(&tree) {
                if let Err((sig, msg)) = oracle_a_with(&m, &tree, before.as_ref()) {
                    vs.push(Violation { property: "C01".into(), signature: sig, message: msg, case: c.clone() });
                }
            }
        }
        return CheckResult { evidence: ev, rule, assumptions, violations: vs };
    }
    let corp = corpus(ctx.seed);
    let pool = crate::checks::c12::pool(ctx.seed);
    let dist = crate::checks::c12::disturbers(ctx.seed);
    let cases = ctx.n(1_200_000, 30_000_000);
    let (mut ev, mut vs) = pt_run(
        ctx,
        "c01a",
        cases,
        || recipe_strategy(8),
        |r: &Recipe, ev| {
            let b = run_recipe(corp, r, true);
            let m = match &b.message {
                Some(m) => m,
                None => return Ok(()),
            };
            let mut res = oracle_a(m, &b.tree);
            if let Ok(Some(_)) = res {
                let d = &pool[dist[(hash_str(&format!("{:?}", r.ops)) % dist.len() as u64) as usize]];
                if let Err((sig, msg)) = oracle_a_with(m, &b.tree, Some(&d.msg)) {
                    res = Err((format!("{}(builder-used-before)", sig), format!("builder used before for [{}]: {}", d.label, msg)));
                }
            }
            if let (Ok(out), Some(ev)) = (&res, ev) {
                match out {
                    Some(f1) => {
                        ev.class("A/accepted");
                        if b.changed {
                            let mut key = b.number.to_le_bytes().to_vec();
                            key.extend_from_slice(f1);
                            ev.nontrivial_bytes(&key);
                            for c in &b.classes {
                                if *c != OpClass::Noop {
                                    ev.class(&format!("A/op/{}", c.name()));
                                }
                            }
                            if !precondition(b.number, &b.tree) {
                                ev.class("A/outside-precondition(bias duplicates or unrecognised)");
                            }
                            if ev.want_sample() && b.classes.len() >= 3 {
                                ev.sample(json!({"part":"A","number":b.number,"ops":b.classes.iter().map(|c| c.name()).collect::<Vec<_>>(),"frame_len":f1.len(),"frame_prefix":hex(&f1[..f1.len().min(16)])}));
                            }
                        }
                    }
                    None => ev.class("A/refused"),
                }
            }
            res.map(|_| ())
        },
        |r| {
            let b = run_recipe(corp, r, true);
            let d = &pool[dist[(hash_str(&format!("{:?}", r.ops)) % dist.len() as u64) as usize]];
            let fresh_ok = b.message.as_ref().map(|m| oracle_a(m, &b.tree).is_ok()).unwrap_or(true);
            if fresh_ok {
                json!({"kind":"message-value","number":b.number,"ops":b.classes.iter().map(|c| c.name()).collect::<Vec<_>>(),"value":b.tree.to_json(),"builder_used_before_for":d.tree.to_json(),"before_label":d.label})
            } else {
                json!({"kind":"message-value","number":b.number,"ops":b.classes.iter().map(|c| c.name()).collect::<Vec<_>>(),"value":b.tree.to_json()})
            }
        },
    );
    // (A') special grid values: the images of the one-hot and low-mask bit patterns of every float-typed data field
    // (taken from the field decoders through the hook, so they are exact grid points of *some* field), tried in every
    // float leaf of the largest base message of every type whose observed range contains them
    {
        let mut specials: Vec<f64> = Vec::new();
        // the grid values are computed here from each field's resolution (= the image of pattern 1 when pattern 0 maps to
        // 0), with the field's own float type, not read back from the decoder: a decoder that mistreats one pattern must
        // not be able to hide the corresponding value from this pass
        for f in crate::fields::FIELDS.iter().filter(|f| f.is_float) {
            let (z, one) = match ((f.dec)(0), (f.dec)(1)) {
                (Ok((_, z)), Ok((false, Some(one)))) => (z.unwrap_or(0.0), one),
                _ => continue,
            };
            if z != 0.0 || !(one > 0.0) {
                continue;
            }
            for j in 0..f.width.min(40) {
                for pat in [1u64 << j, (1u64 << j) - 1, (1u64 << j) + 1] {
                    let v = if f.is_f32 { ((pat as f32) * (one as f32)) as f64 } else { (pat as f64) * one };
                    if v.is_finite() && v != 0.0 {
                        specials.push(v);
                        specials.push(-v);
                    }
                }
            }
        }
        specials.sort_by(|a, b| a.partial_cmp(b).unwrap());
        specials.dedup();
        let parts: Vec<(Evidence, Vec<Violation>)> = corp
            .types
            .par_iter()
            .map(|tc| {
                let mut ev = Evidence::new();
                ev.sample_cap = 0;
                let mut vs: Vec<Violation> = Vec::new();
                let base = match tc.bases.iter().max_by_key(|b| format!("{:?}", b).len()) {
                    Some(b) => b,
                    None => return (ev, vs),
                };
                let mut all = Vec::new();
                base.walk(&mut Vec::new(), &mut all);
                // one representative leaf per schema key (first element of each list)
                let mut seen_keys: Vec<String> = Vec::new();
                for (path, node) in all.iter().filter(|(_, n)| n.is_float()) {
                    let key = crate::value::schema_key(path);
                    if seen_keys.contains(&key) {
                        continue;
                    }
                    seen_keys.push(key.clone());
                    let (lo, hi) = match tc.num_ranges.get(&key) {
                        Some(r) => *r,
                        None => continue,
                    };
                    let cands: Vec<f64> = specials.iter().copied().filter(|v| *v >= lo && *v <= hi).collect();
                    let stride = (cands.len() / 1500).max(1);
                    for v in cands.iter().step_by(stride) {
                        let mut t = base.clone();
                        match t.get_mut(path) {
                            Some(Value::F32(x)) => *x = *v as f32,
                            Some(Value::F64(x)) => *x = *v,
                            _ => continue,
                        }
                        let m = match value_to_message(&t) {
                            Ok(m) => m,
                            Err(_) => continue,
                        };
                        ev.evaluations += 1;
                        match oracle_a(&m, &t) {
                            Ok(_) => {
                                ev.nontrivial_hash(hash_u64s(&[tc.number as u64, hash_str(&key), v.to_bits()]));
                                if ev.evaluations % 16 == 0 {
                                    ev.class("A/special-grid-value-in-a-float-leaf");
                                }
                            }
                            Err((sig, msg)) => {
                                if ctx.is_known(&sig) {
                                    ev.excluded_known += 1;
                                } else if vs.is_empty() {
                                    vs.push(Violation { property: "C01".into(), signature: sig, message: format!("{} = {:e}: {}", key, v, msg), case: json!({"kind":"message-value","number":tc.number,"value":t.to_json()}) });
                                }
                            }
                        }
                    }
                }
                (ev, vs)
            })
            .collect();
        for (e, v) in parts {
            ev.merge(e);
            for x in v {
                if !vs.iter().any(|y| y.signature == x.signature) {
                    vs.push(x);
                }
            }
        }
    }
    // (B)
    let golden_all = crate::pool::golden_frames();
    let per_type = ctx.n(12_000, 300_000);
    let parts: Vec<(Evidence, Vec<Violation>)> = MSG_TABLE
        .par_iter()
        .map(|row| {
            let mut ev = Evidence::new();
            ev.sample_cap = 1;
            let mut vs: Vec<Violation> = Vec::new();
            let golden: Vec<Vec<u8>> = golden_all.iter().filter(|(n, _)| n.starts_with(&format!("msg{}_", row.number))).map(|(_, f)| f.clone()).collect();
            let mut rng = ctx.rng("c01b", row.number as u64);
            for _ in 0..per_type {
                let (f, class, _) = any_frame(&mut rng, row.number, &golden);
                ev.evaluations += 1;
                match oracle_b(&f) {
                    Ok(outcome) => {
                        if outcome == "fixed-point" && class != "generated" {
                            let mut key = row.number.to_le_bytes().to_vec();
                            key.extend_from_slice(&f);
                            ev.nontrivial_bytes(&key);
                            if ev.want_sample() {
                                ev.sample(json!({"part":"B","number":row.number,"generator":class,"frame_len":f.len(),"frame_prefix":hex(&f[..f.len().min(16)])}));
                            }
                        }
                        if ev.evaluations % 8 == 0 {
                            ev.class(&format!("B/{}", outcome));
                        }
                    }
                    Err((sig, msg)) => {
                        if ctx.is_known(&sig) {
                            ev.excluded_known += 1;
                        } else if !vs.iter().any(|v| v.signature == sig) {
                            vs.push(Violation { property: "C01".into(), signature: sig, message: format!("[{}] {}", class, msg), case: json!({"kind":"frame","bytes":hex(&f),"generator":class}) });
                        }
                    }
                }
            }
            (ev, vs)
        })
        .collect();
    for (e, v) in parts {
        ev.merge(e);
        for x in v {
            if !vs.iter().any(|y| y.signature == x.signature) {
                vs.push(x);
            }
        }
    }
    ev.notes.push("B/* outcome counters are sampled (1 in 8)".into());
    vs.truncate(8);
    CheckResult { evidence: ev, rule, assumptions, violations: vs }
}
