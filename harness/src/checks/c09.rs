//! C09 — encoding is total and every emitted frame is well formed (both build profiles).
use crate::bits::{get_bits, hex};
use crate::infra::*;
use crate::msggen::{self, corpus, recipe_strategy, run_recipe, value_to_message, OpClass, Recipe};
use crate::msm::Cons;
use crate::registry::{self, MSG_TABLE};
use crate::value::{Step, Value};
use rayon::prelude::*;
use rtcm_rs::prelude::*;
use serde_json::{json, Value as J};

/// Ok(Some(frame)) built, Ok(None) refused with an error; Err = violation
pub fn oracle(m: &Message) -> Result<Option<Vec<u8>>, (String, String)> {
    oracle_with(m, None)
}

/// the same oracle when the builder has been used once before (for a message that was refused early, refused late, or
/// produced a long frame): every emitted frame must still be well formed
pub fn oracle_with(m: &Message, before: Option<&Message>) -> Result<Option<Vec<u8>>, (String, String)> {
    let name = registry::variant_name(m);
    let r = catch(|| {
        let mut b = MessageBuilder::new();
        if let Some(d) = before {
            crate::msggen::use_builder_before(&mut b, d);
        }
        b.build_message(m).map(|f| f.to_vec()).map_err(|e| format!("{:?}", e))
    });
    let r = match r {
        Ok(r) => r,
        Err(p) => return Err((panic_signature(&p), format!("building a {} message panicked: {}", name, p))),
    };
    let f = match r {
        Err(_) => return Ok(None),
        Ok(f) => f,
    };
    let wireless = matches!(m, Message::Empty | Message::Corrupt | Message::MsgNotSupported(_));
    if wireless {
        return Err(("c09:wireless-variant-encoded".into(), format!("{} has no wire form but a frame was returned", name)));
    }
    let n = f.len();
    if n < 8 || n > 1029 {
        return Err(("c09:frame-length".into(), format!("{} frame of {} bytes (must be 8..=1029)", name, n)));
    }
    if f[0] != 0xD3 {
        return Err(("c09:preamble".into(), format!("{} frame starts with {:#x}", name, f[0])));
    }
    if f[1] & 0xFC != 0 {
        return Err(("c09:reserved-bits".into(), format!("{} frame has reserved bits {:#x}", name, f[1] >> 2)));
    }
    let l = (((f[1] & 3) as usize) << 8) | f[2] as usize;
    if l != n - 6 {
        return Err(("c09:length-field".into(), format!("{} frame: length field {} but payload is {} bytes", name, l, n - 6)));
    }
    let num = get_bits(&f[3..], 0, 12).unwrap() as u16;
    let want = msggen::number_of_variant_name(name);
    let row = MSG_TABLE.iter().find(|r| r.variant == name).map(|r| r.number);
    if Some(num) != want || Some(num) != row || m.number() != Some(num) {
        return Err(("c09:message-number".into(), format!("{} frame carries number {} (table {:?}, number() {:?})", name, num, row, m.number())));
    }
    let crc = crate::crc::crc24q(&f[..n - 3]);
    let got = ((f[n - 3] as u32) << 16) | ((f[n - 2] as u32) << 8) | f[n - 1] as u32;
    if crc != got {
        return Err(("c09:checksum".into(), format!("{} frame: checksum {:06x}, independent CRC-24Q {:06x}", name, got, crc)));
    }
    Ok(Some(f))
}

fn viol(sig: String, msg: String, tree: &Value) -> Violation {
    Violation { property: "C09".into(), signature: sig, message: msg, case: json!({"kind":"message-value","value":tree.to_json()}) }
}

pub const EXTREMES_F: &[f64] = &[f64::NAN, f64::INFINITY, f64::NEG_INFINITY, 1e30, -1e30, f64::MAX, f64::MIN, 0.0, -0.0, 1e-300, 2147483648.0, -2147483648.0, 4294967296.0, 1.8446744073709552e19, -9.223372036854776e18];

pub fn run(ctx: &Ctx, replay: Option<&J>) -> CheckResult {
    let rule = "messages built through the public data model for all supported types: (1) proptest recipes = base message (Default / decoded golden / generated / \
        synthesised frame) + up to 8 type-directed mutations of the serde value tree (floats off-grid, +-huge, NaN, +-inf; integers MIN/MAX/random; options toggled; \
        lists permuted, duplicated, filled to capacity; strings of all Unicode classes around the capacities; signal descriptors changed); (2) systematic single-leaf \
        sweep: every numeric leaf of two bases per type set to each of 15 extreme values / type MIN / type MAX; (3) hostile typed constructors: MSM with satellite \
        0/65/255, unknown signal, duplicate satellite/cell, mismatching rows, >64 mask cells; 1059/1065 with 64 satellites and >31 entries per satellite; \
        Empty/Corrupt/MsgNotSupported; (4) 1007/1008/1033/1029 constructed through the typed API (From<&str>) from over-long, multi-byte and token text. oracle (catch_unwind): Err or a frame of 8..=1029 bytes, 0xD3, zero reserved bits, length field == payload size, first 12 payload \
        bits == the variant's number, checksum == independent CRC-24Q; wire-less variants refused; every recipe is also built on a builder that was used once before (refused early / refused late / long frame) with the same frame oracle. both build profiles. non-trivial = >=1 out-of-domain op or full list; \
        distinct = hash of the value tree"
        .to_string();
    let assumptions = vec![
        "every value is constructed through the crate's public fields/constructors (serde impls used as construction vehicle only)".to_string(),
        "recipes whose tree no longer deserialises (capacity exceeded) are discarded and counted".to_string(),
    ];
    if let Some(c) = replay {
        let mut ev = Evidence::new();
        ev.eval();
        let mut vs = Vec::new();
        if c["kind"] == "typed-string" {
            let shard = c["shard"].as_u64().unwrap_or(0);
            let index = c["index"].as_u64().unwrap_or(0);
            let mut rng = ctx.rng("c09-typed-strings", shard);
            let mut res: Result<(), (String, String)> = Ok(());
            for i in 0..=index {
                let built = catch(|| msggen::typed_string_message(&mut rng, i));
                if i == index {
                    res = match built {
                        Ok(m) => oracle(&m).map(|_| ()),
                        Err(p) => Err((panic_signature(&p), format!("constructing a string-bearing message through From<&str> panicked: {}", p))),
                    };
                }
            }
            if let Err((sig, msg)) = res {
                vs.push(Violation { property: "C09".into(), signature: sig, message: msg, case: c.clone() });
            }
        } else if let Some(tree) = c.get("value").and_then(Value::from_json) {
            let before = c.get("builder_used_before_for").and_then(Value::from_json).and_then(|t| value_to_message(&t).ok());
            match value_to_message(&tree) {
                Ok(m) => {
                    if let Err((sig, msg)) = oracle_with(&m, before.as_ref()) {
                        vs.push(Violation { property: "C09".into(), signature: sig, message: msg, case: c.clone() });
                    }
                }
                Err(e) => ev.notes.push(format!("replay value does not deserialise: {}", e)),
            }
        }
        return CheckResult { evidence: ev, rule, assumptions, violations: vs };
    }
    let corp = corpus(ctx.seed);
    let mut ev = Evidence::new();
    let mut vs: Vec<Violation> = Vec::new();
    let add_v = |vs: &mut Vec<Violation>, ev: &mut Evidence, sig: String, msg: String, tree: &Value| {
        if ctx.is_known(&sig) {
            ev.excluded_known += 1;
        } else if !vs.iter().any(|v| v.signature == sig) && vs.len() < 10 {
            vs.push(viol(sig, msg, tree));
        }
    };

    // (3) wire-less variants and hostile typed constructors
    for m in [Message::Empty, Message::Corrupt, Message::MsgNotSupported(rtcm_rs::msg::message::MsgNotSupportedT { message_number: 1 }), Message::MsgNotSupported(rtcm_rs::msg::message::MsgNotSupportedT { message_number: 1005 })] {
        ev.eval();
        match oracle(&m) {
            Ok(None) => {
                ev.class("wireless-refused");
                ev.nontrivial_hash(hash_str(&format!("{:?}", m)));
            }
            Ok(Some(_)) => {}
            Err((sig, msg)) => add_v(&mut vs, &mut ev, sig, msg, &msggen::message_to_value(&m)),
        }
    }
    // MSM hostile
    let msm_parts: Vec<(Evidence, Vec<(String, String, Value)>)> = corp
        .types
        .par_iter()
        .filter(|tc| Cons::of_number(tc.number).is_some())
        .map(|tc| {
            let (cons, _level) = Cons::of_number(tc.number).unwrap();
            let mut ev = Evidence::new();
            let mut out = Vec::new();
            let mut rng = ctx.rng("c09-msm", tc.number as u64);
            let table = cons.table();
            let reps = ctx.n(400, 8000);
            for rep in 0..reps {
                let kind = rep % 8;
                let ng = 1 + rng.below(table.len() as u64) as usize;
                let (ns, ng) = match kind {
                    0 => ((65 / ng + 1).min(64), ng),                                         // just above 64 cells
                    1 => (64, table.len()),                                                  // maximal
                    2 => (5, table.len().min(13)),
                    _ => (1 + rng.below(8) as usize, ng.min(6)),
                };
                let mut sats: Vec<u8> = (1..=64).collect();
                rng.shuffle(&mut sats);
                sats.truncate(ns);
                let mut sig_idx: Vec<usize> = (0..table.len()).collect();
                rng.shuffle(&mut sig_idx);
                sig_idx.truncate(ng);
                let mut cells: Vec<(u8, (u8, char))> = Vec::new();
                for s in &sats {
                    for g in &sig_idx {
                        if cells.len() < 64 && (kind <= 2 || rng.below(3) != 0) {
                            cells.push((*s, (table[*g].1, table[*g].2)));
                        }
                    }
                }
                // make sure every satellite / signal is used where possible (kind 0..2: as many as fit into 64 rows)
                match kind {
                    3 => sats[0] = 0,
                    4 => sats[0] = [65u8, 255, 128][rng.below(3) as usize],
                    5 => {
                        if let Some(c) = cells.first_mut() {
                            c.1 = (9, 'q');
                        }
                    }
                    6 => {
                        if let Some(c) = cells.first().cloned() {
                            cells.push(c);
                        }
                        let s0 = sats[0];
                        sats.push(s0);
                    }
                    7 => {
                        sats.push(sats[0].wrapping_add(1).max(1).min(64));
                    }
                    _ => {}
                }
                rng.shuffle(&mut cells);
                if let Some(tree) = msggen::msm_value(tc, &sats, &cells) {
                    if let Ok(m) = value_to_message(&tree) {
                        ev.evaluations += 1;
                        match oracle(&m) {
                            Ok(r) => {
                                ev.class(&format!("msm-hostile/{}", if r.is_some() { "built" } else { "refused" }));
                                ev.nontrivial_hash(hash_str(&format!("{:?}", tree)));
                            }
                            Err((sig, msg)) => out.push((sig, msg, tree)),
                        }
                    }
                }
            }
            (ev, out)
        })
        .collect();
    for (e, out) in msm_parts {
        ev.merge(e);
        for (sig, msg, tree) in out {
            add_v(&mut vs, &mut ev, sig, msg, &tree);
        }
    }
    // 1059 / 1065: many satellites, many entries per satellite
    for num in [1059u16, 1065] {
        if let Some(tc) = corp.of(num) {
            let key = ".biases^".to_string();
            let tpl = tc.seq_templates.iter().find(|(k, _)| k.ends_with(&key)).map(|(_, v)| v.0.clone());
            if let (Some(tpl), Some(base)) = (tpl, tc.bases.first()) {
                let mut rng = ctx.rng("c09-bias", num as u64);
                for rep in 0..ctx.n(200, 4000) {
                    let nsat = match rep % 4 {
                        0 => 64,
                        1 => 1,
                        2 => 1 + rng.below(64),
                        _ => 63,
                    };
                    let total = match rep % 3 {
                        0 => 390,
                        1 => 32 + rng.below(300),
                        _ => rng.below(391),
                    } as usize;
                    let mut items = Vec::new();
                    for i in 0..total {
                        let mut e = tpl.clone();
                        if let Some(s) = e.get_mut(&[Step::Field("satellite_id")]) {
                            *s = Value::U8(((i as u64 * 7 + rng.below(2)) % nsat) as u8);
                        }
                        if let Some(b) = e.get_mut(&[Step::Field("bias_m")]) {
                            *b = Value::F32((rng.below(2000) as f32 - 1000.0) * 0.01);
                        }
                        items.push(e);
                    }
                    let mut tree = base.clone();
                    if let Some(Value::Seq(s)) = tree.get_mut(&[Step::Inner, Step::Field("biases"), Step::Inner]) {
                        *s = items;
                    }
                    if let Ok(m) = value_to_message(&tree) {
                        ev.eval();
                        match oracle(&m) {
                            Ok(r) => {
                                ev.class(&format!("bias-list-large/{}", if r.is_some() { "built" } else { "refused" }));
                                ev.nontrivial_hash(hash_str(&format!("{:?}", tree)));
                            }
                            Err((sig, msg)) => add_v(&mut vs, &mut ev, sig, msg, &tree),
                        }
                    }
                }
            }
        }
    }
    // typed construction of the string-bearing messages (From<&str>): over-long and multi-byte sources
    {
        let n = ctx.n(40_000, 1_000_000);
        let (tev, tvs) = par_shards(16, |shard| {
            let mut ev = Evidence::new();
            let mut vs: Vec<Violation> = Vec::new();
            let mut rng = ctx.rng("c09-typed-strings", shard as u64);
            for i in 0..n / 16 {
                let built = catch(|| msggen::typed_string_message(&mut rng, i));
                ev.evaluations += 1;
                let m = match built {
                    Ok(m) => m,
                    Err(p) => {
                        if vs.is_empty() {
                            vs.push(Violation { property: "C09".into(), signature: panic_signature(&p), message: format!("constructing a string-bearing message through From<&str> panicked: {}", p), case: json!({"kind":"typed-string","shard":shard,"index":i}) });
                        }
                        continue;
                    }
                };
                match oracle(&m) {
                    Ok(_) => {
                        ev.nontrivial_hash(hash_str(&format!("{:?}", registry::variant_name(&m))) ^ (shard as u64) << 32 ^ i);
                        if i % 16 == 0 {
                            ev.class("typed-string-message");
                        }
                    }
                    Err((sig, msg)) => {
                        if !vs.iter().any(|v| v.signature == sig) {
                            vs.push(Violation { property: "C09".into(), signature: sig, message: msg, case: json!({"kind":"typed-string","shard":shard,"index":i}) });
                        }
                    }
                }
            }
            (ev, vs)
        });
        ev.merge(tev);
        for v in tvs {
            if !vs.iter().any(|x| x.signature == v.signature) {
                vs.push(v);
            }
        }
    }
    // (2) systematic single-leaf sweep
    let sweep_parts: Vec<(Evidence, Vec<(String, String, Value)>)> = corp
        .types
        .par_iter()
        .map(|tc| {
            let mut ev = Evidence::new();
            ev.sample_cap = 1;
            let mut out = Vec::new();
            // default and the largest base
            let mut picks: Vec<&Value> = Vec::new();
            if let Some(b) = tc.bases.first() {
                picks.push(b);
            }
            if let Some(b) = tc.bases.iter().max_by_key(|b| format!("{:?}", b).len()) {
                picks.push(b);
            }
            for base in picks {
                let mut all = Vec::new();
                base.walk(&mut Vec::new(), &mut all);
                let leaves: Vec<_> = all.iter().filter(|(_, n)| n.is_leaf_number()).map(|(p, n)| (p.clone(), (*n).clone())).collect();
                // cap the number of leaves for very large bases
                let stride = (leaves.len() / 400).max(1);
                for (path, node) in leaves.iter().step_by(stride) {
                    let mut cands: Vec<Value> = Vec::new();
                    if node.is_float() {
                        for x in EXTREMES_F {
                            cands.push(if matches!(node, Value::F32(_)) { Value::F32(*x as f32) } else { Value::F64(*x) });
                        }
                    } else {
                        cands.extend([Value::I64(i64::MIN), Value::I64(i64::MAX), Value::I64(-1), Value::I64(0), Value::I64(127), Value::I64(-128), Value::I64(128), Value::I64(255), Value::I64(121), Value::I64(-8)]);
                    }
                    for cv in cands {
                        let mut tree = base.clone();
                        *tree.get_mut(path).unwrap() = cv;
                        if let Ok(m) = value_to_message(&tree) {
                            ev.evaluations += 1;
                            match oracle(&m) {
                                Ok(r) => {
                                    ev.nontrivial_hash(hash_str(&format!("{:?}", tree)));
                                    if ev.evaluations % 64 == 0 {
                                        ev.class(&format!("leaf-sweep/{}", if r.is_some() { "built" } else { "refused" }));
                                    }
                                }
                                Err((sig, msg)) => {
                                    if !out.iter().any(|(s, _, _): &(String, String, Value)| *s == sig) {
                                        out.push((sig, msg, tree));
                                    }
                                }
                            }
                        }
                    }
                }
            }
            (ev, out)
        })
        .collect();
    for (e, out) in sweep_parts {
        ev.merge(e);
        for (sig, msg, tree) in out {
            add_v(&mut vs, &mut ev, sig, msg, &tree);
        }
    }
    // (1) proptest recipes
    let pool = crate::checks::c12::pool(ctx.seed);
    let dist = crate::checks::c12::disturbers(ctx.seed);
    let cases = ctx.n(400_000, 12_000_000);
    let (pev, pvs) = pt_run(
        ctx,
        "c09",
        cases,
        || recipe_strategy(8),
        |r: &Recipe, ev| {
            let b = run_recipe(corp, r, true);
            let m = match &b.message {
                Some(m) => m,
                None => {
                    if let Some(ev) = ev {
                        ev.class("recipe/discarded(capacity)");
                    }
                    return Ok(());
                }
            };
            let mut res = oracle(m);
            if res.is_ok() {
                // one-step builder history: the same message on a builder that was used before
                let d = &pool[dist[(hash_str(&format!("{:?}", r.ops)) % dist.len() as u64) as usize]];
                if let Err((sig, msg)) = oracle_with(m, Some(&d.msg)) {
                    res = Err((format!("{}(after:{})", sig, d.label.split('/').nth(1).unwrap_or(&d.label).chars().filter(|c| c.is_ascii_alphabetic() || *c == '-').collect::<String>()), format!("builder used before for [{}]: {}", d.label, msg)));
                }
            }
            if let (Ok(built), Some(ev)) = (&res, ev) {
                let ood = b.classes.iter().any(|c| c.out_of_domain());
                if ood {
                    ev.nontrivial_hash(hash_str(&format!("{:?}", b.tree)));
                }
                for c in &b.classes {
                    if *c != OpClass::Noop {
                        ev.class(&format!("op/{}", c.name()));
                    }
                }
                ev.class(if built.is_some() { "recipe/built" } else { "recipe/refused" });
                if ood && built.is_some() && ev.want_sample() && b.classes.len() >= 2 {
                    ev.sample(json!({"number":b.number,"ops":b.classes.iter().map(|c| c.name()).collect::<Vec<_>>(),"frame_len":built.as_ref().map(|f| f.len()),
                        "frame_prefix":built.as_ref().map(|f| hex(&f[..f.len().min(16)]))}));
                }
            }
            res.map(|_| ())
        },
        |r| {
            let b = run_recipe(corp, r, true);
            let d = &pool[dist[(hash_str(&format!("{:?}", r.ops)) % dist.len() as u64) as usize]];
            let fresh_ok = b.message.as_ref().map(|m| oracle(m).is_ok()).unwrap_or(true);
            if fresh_ok {
                json!({"kind":"message-value","number":b.number,"ops":b.classes.iter().map(|c| c.name()).collect::<Vec<_>>(),"value":b.tree.to_json(),"builder_used_before_for":d.tree.to_json(),"before_label":d.label})
            } else {
                json!({"kind":"message-value","number":b.number,"ops":b.classes.iter().map(|c| c.name()).collect::<Vec<_>>(),"value":b.tree.to_json()})
            }
        },
    );
    ev.merge(pev);
    for v in pvs {
        if !vs.iter().any(|x| x.signature == v.signature) {
            vs.push(v);
        }
    }
    ev.extra.insert("message_types".into(), json!(corp.types.len()));
    ev.extra.insert("bases_total".into(), json!(corp.types.iter().map(|t| t.bases.len()).sum::<usize>()));
    CheckResult { evidence: ev, rule, assumptions, violations: vs }
}
