pub mod c01;
pub mod c02;
pub mod c03;
pub mod c04;
pub mod c05;
pub mod c07;
pub mod c08;
pub mod c09;
pub mod c10;
pub mod c11;
pub mod c12;
pub mod c13;
pub mod c14;
pub mod c15;
pub mod c16;
pub mod c17;
pub mod c18;
pub mod c19;
pub mod c20;

use crate::infra::{CheckResult, Ctx};
use serde_json::Value as J;

/// dispatch: run the check for ctx.prop (or replay one case of it)
pub fn run(ctx: &Ctx, replay: Option<&J>) -> Option<CheckResult> {
    Some(match ctx.prop.as_str() {
        "C01" => c01::run(ctx, replay),
        "C02" => c02::run(ctx, replay),
        "C03" => c03::run(ctx, replay),
        "C04" => c04::run(ctx, replay),
        "C05" => c05::run(ctx, replay, false),
        "C06" => c05::run(ctx, replay, true),
        "C07" => c07::run(ctx, replay),
        "C08" => c08::run(ctx, replay),
        "C09" => c09::run(ctx, replay),
        "C10" => c10::run(ctx, replay),
        "C11" => c11::run(ctx, replay),
        "C12" => c12::run(ctx, replay),
        "C13" => c13::run(ctx, replay),
        "C14" => c14::run(ctx, replay),
        "C15" => c15::run(ctx, replay),
        "C16" => c16::run(ctx, replay),
        "C17" => c17::run(ctx, replay),
        "C18" => c18::run(ctx, replay),
        "C19" => c19::run(ctx, replay),
        "C20" => c20::run(ctx, replay),
        _ => return None,
    })
}

/// properties that are explored in both build profiles (release and release+overflow-checks)
pub fn two_profiles(prop: &str) -> bool {
    matches!(prop, "C02" | "C09")
}
