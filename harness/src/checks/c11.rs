//! C11 — quantisation picks the nearest representable value (hook: df::dfs), incl. the three bias codecs via messages.
use crate::biasmsg::{glo_payload, ssr_payload, BiasMsg};
use crate::bits::get_bits;
use crate::fields::{FieldDesc, FIELDS};
use crate::frame::frame;
use crate::infra::*;
use rayon::prelude::*;
use rtcm_rs::msg::*;
use rtcm_rs::prelude::*;
use rtcm_rs::util::DataVec;
use serde_json::{json, Value as J};

#[derive(Clone, Copy, PartialEq, Debug)]
enum Kind {
    U,
    I,
    SM,
}
fn kind_of(it: &str) -> Kind {
    if it.starts_with("SM") {
        Kind::SM
    } else if it.starts_with('I') {
        Kind::I
    } else {
        Kind::U
    }
}
fn k_range(kind: Kind, w: u32) -> (i64, i64) {
    match kind {
        Kind::U => (0, ((1u128 << w) - 1) as i64),
        Kind::I => (-(1i64 << (w - 1)), (1i64 << (w - 1)) - 1),
        Kind::SM => (-((1i64 << (w - 1)) - 1), (1i64 << (w - 1)) - 1),
    }
}
fn pattern_of(kind: Kind, w: u32, k: i64) -> u64 {
    let mask = u64::MAX >> (64 - w);
    match kind {
        Kind::U => k as u64,
        Kind::I => (k as u64) & mask,
        Kind::SM => {
            if k < 0 {
                (1u64 << (w - 1)) | ((-k) as u64)
            } else {
                k as u64
            }
        }
    }
}
fn index_of(kind: Kind, w: u32, p: u64) -> i64 {
    match kind {
        Kind::U => p as i64,
        Kind::I => {
            if (p >> (w - 1)) & 1 == 1 {
                (p as i64) - (1i64 << w)
            } else {
                p as i64
            }
        }
        Kind::SM => {
            let mag = (p & ((1u64 << (w - 1)) - 1)) as i64;
            if (p >> (w - 1)) & 1 == 1 {
                -mag
            } else {
                mag
            }
        }
    }
}

pub const TS: &[f64] = &[1e-9, 1e-6, 0.1, 0.25, 0.49, 0.499999, 0.5, 0.500001, 0.51, 0.75, 0.9, 0.999999, 1.0 - 1e-9];

/// abstract codec: g(k) (None = absent / not representable), encode(x) -> index
struct Codec<'a> {
    name: String,
    is_f32: bool,
    kmin: i64,
    kmax: i64,
    g: Box<dyn Fn(i64) -> Result<Option<f64>, String> + 'a + Sync>,
    enc: Box<dyn Fn(f64) -> Result<i64, String> + 'a + Sync>,
}

fn round_to_type(x: f64, is_f32: bool) -> f64 {
    if is_f32 {
        (x as f32) as f64
    } else {
        x
    }
}

/// oracle for one interval [k, k+1] and one list of t values (ascending); returns number of strictly-inside inputs
fn interval(c: &Codec, k: i64, ts: &[f64]) -> Result<u64, (String, String)> {
    let g0 = c.g(k).map_err(|e| (format!("c11:{}:decode-error", c.name), e))?;
    let g1 = c.g(k + 1).map_err(|e| (format!("c11:{}:decode-error", c.name), e))?;
    let (g0, g1) = match (g0, g1) {
        (Some(a), Some(b)) => (a, b),
        _ => return Ok(0), // a neighbour is the 'absent' marker
    };
    if !(g1 > g0) {
        return Err((format!("c11:{}:grid-not-increasing", c.name), format!("field {}: g({})={} and g({})={} are not increasing", c.name, k, g0, k + 1, g1)));
    }
    let step = g1 - g0;
    let u = if c.is_f32 { 2f64.powi(-24) } else { 2f64.powi(-53) };
    // negative zero is the real number 0: where 0 is a grid point it must be accepted and encode to that point
    if g0 == 0.0 {
        let idx = c.enc(-0.0).map_err(|e| (format!("c11:{}:negative-zero-refused", c.name), format!("field {}: encoding -0.0 (the grid point g({}) = 0) failed: {}", c.name, k, e)))?;
        if idx != k {
            return Err((format!("c11:{}:negative-zero", c.name), format!("field {}: -0.0 encodes to index {}, the grid point 0 has index {}", c.name, idx, k)));
        }
    }
    let mut inside = 0u64;
    let mut last_idx = i64::MIN;
    let mut last_x = f64::NEG_INFINITY;
    for &t in ts {
        let x = round_to_type(g0 + t * step, c.is_f32);
        if !(x >= g0 && x <= g1) {
            continue;
        }
        let idx = c.enc(x).map_err(|e| (format!("c11:{}:encode-error", c.name), format!("field {}: encoding {} (between g({}) and g({})) failed: {}", c.name, x, k, k + 1, e)))?;
        if idx != k && idx != k + 1 {
            return Err((
                format!("c11:{}:not-a-neighbour", c.name),
                format!("field {}: input {:e} lies between g({})={:e} and g({})={:e} but encodes to index {}", c.name, x, k, g0, k + 1, g1, idx),
            ));
        }
        let gi = if idx == k { g0 } else { g1 };
        let slack = 16.0 * u * (g0.abs().max(g1.abs()).max(x.abs()) + step);
        if (gi - x).abs() > step / 2.0 + slack {
            return Err((
                format!("c11:{}:not-nearest", c.name),
                format!(
                    "field {}: input {:e} (t={}) in [{:e},{:e}] encodes to index {} whose value is {:e} away (half step {:e}, slack {:e})",
                    c.name,
                    x,
                    t,
                    g0,
                    g1,
                    idx,
                    (gi - x).abs(),
                    step / 2.0,
                    slack
                ),
            ));
        }
        if x >= last_x && idx < last_idx {
            return Err((format!("c11:{}:not-monotone", c.name), format!("field {}: larger input {:e} encodes to a smaller index {} < {}", c.name, x, idx, last_idx)));
        }
        last_idx = idx;
        last_x = x;
        if x > g0 && x < g1 {
            inside += 1;
        }
    }
    Ok(inside)
}

/// grid indexes for one shard: the shard owns the sub-range [lo,hi) of [kmin,kmax) so that indexes are distinct across shards
fn ks_for(kmin: i64, kmax: i64, lo: i64, hi: i64, nrand: u64, rng: &mut crate::rng::Rng) -> Vec<i64> {
    let mut ks: Vec<i64> = Vec::new();
    for d in 0..4 {
        ks.push(kmin + d);
        ks.push(kmax - 1 - d);
        ks.push(-1 - d);
        ks.push(d);
    }
    let span = (hi - lo).max(1) as u64;
    if span <= nrand {
        ks.extend(lo..hi);
    } else {
        for _ in 0..nrand {
            ks.push(lo + rng.below(span) as i64);
        }
    }
    // powers of two and their neighbours (mantissa boundaries)
    let mut p = 1i64;
    while p < kmax {
        ks.extend([p - 1, p, -p, -p - 1]);
        p <<= 1;
    }
    ks.retain(|k| *k >= kmin && *k < kmax && *k >= lo && *k < hi);
    ks.sort();
    ks.dedup();
    ks
}

fn field_codec(f: &'static FieldDesc) -> Codec<'static> {
    let kind = kind_of(f.it);
    let w = f.width;
    let (kmin, kmax) = k_range(kind, w);
    Codec {
        name: f.name.to_string(),
        is_f32: f.is_f32,
        kmin,
        kmax,
        g: Box::new(move |k| match (f.dec)(pattern_of(kind, w, k)) {
            Ok((true, _)) => Ok(None),
            Ok((false, v)) => Ok(v),
            Err(e) => Err(e),
        }),
        enc: Box::new(move |x| (f.enc_real)(x).map(|p| index_of(kind, w, p))),
    }
}
impl<'a> Codec<'a> {
    fn g(&self, k: i64) -> Result<Option<f64>, String> {
        (self.g)(k)
    }
    fn enc(&self, x: f64) -> Result<i64, String> {
        (self.enc)(x)
    }
}

// ---- bias codecs through one-entry messages ----
fn bias_message(m: BiasMsg, sig_index: usize, sat: u8, x: f32) -> Message {
    let (_, band, attr) = m.signals()[sig_index % m.signals().len()];
    match m {
        BiasMsg::M1059 => {
            let mut t = Msg1059T::default();
            let mut v = DataVec::new();
            v.push(Msg1059CodeBias { satellite_id: sat, signal_id: GpsSigId::new(band, attr), bias_m: x });
            t.biases = v;
            Message::Msg1059(t)
        }
        BiasMsg::M1065 => {
            let mut t = Msg1065T::default();
            let mut v = DataVec::new();
            v.push(Msg1065CodeBias { satellite_id: sat, signal_id: GloSigId::new(band, attr), bias_m: x });
            t.biases = v;
            Message::Msg1065(t)
        }
        BiasMsg::M1230 => {
            let mut t = Msg1230T::default();
            let mut v = DataVec::new();
            v.push(Msg1230CodePhaseBias { signal_id: GloSigId::new(band, attr), bias_m: x });
            t.glo_code_phase_biases = v;
            Message::Msg1230(t)
        }
    }
}
fn bias_decode_pattern(m: BiasMsg, sig_index: usize, sat: u8, pat: u16) -> Result<Option<f64>, String> {
    let (sig, _, _) = m.signals()[sig_index % m.signals().len()];
    let payload = match m {
        BiasMsg::M1230 => glo_payload(0, 8 >> (sig_index % 4), &[pat]),
        _ => ssr_payload(m, 0, &[(sat, vec![(sig, pat & 0x3FFF)])], None),
    };
    let f = frame(&payload);
    let mf = MessageFrame::new(&f).map_err(|e| format!("{:?}", e))?;
    let v = match mf.get_message() {
        Message::Msg1059(t) if t.biases.len() == 1 => t.biases[0].bias_m,
        Message::Msg1065(t) if t.biases.len() == 1 => t.biases[0].bias_m,
        Message::Msg1230(t) if t.glo_code_phase_biases.len() == 1 => t.glo_code_phase_biases[0].bias_m,
        other => return Err(format!("one-entry frame decodes to {}", crate::registry::variant_name(&other))),
    };
    Ok(Some(v as f64))
}
fn bias_encode(m: BiasMsg, sig_index: usize, sat: u8, x: f64) -> Result<i64, String> {
    // the entry under test is the SECOND entry of its satellite: an entry with another signal and a large bias precedes it
    let mut msg = bias_message(m, sig_index, sat, x as f32);
    let other = (sig_index + 1) % m.signals().len();
    let (_, ob, oa) = m.signals()[other];
    let prev: f32 = if (x as f32).to_bits() % 2 == 0 { 55.55 } else { -37.21 };
    match &mut msg {
        Message::Msg1059(t) => {
            let e = t.biases[0].clone();
            let mut v = DataVec::new();
            v.push(Msg1059CodeBias { satellite_id: sat, signal_id: GpsSigId::new(ob, oa), bias_m: prev });
            v.push(e);
            t.biases = v;
        }
        Message::Msg1065(t) => {
            let e = t.biases[0].clone();
            let mut v = DataVec::new();
            v.push(Msg1065CodeBias { satellite_id: sat, signal_id: GloSigId::new(ob, oa), bias_m: prev });
            v.push(e);
            t.biases = v;
        }
        _ => {}
    }
    let two = !matches!(m, BiasMsg::M1230);
    let mut b = MessageBuilder::new();
    let f = b.build_message(&msg).map_err(|e| format!("{:?}", e))?;
    let w = m.bias_bits();
    let off = match m {
        BiasMsg::M1230 => m.header_bits() + 4,
        _ => m.header_bits() + 6 + m.sat_bits() + 5 + 5 + if two { 14 + 5 } else { 0 },
    };
    let p = get_bits(&f[3..], off, w).ok_or_else(|| "frame too short".to_string())?;
    Ok(index_of(Kind::I, w as u32, p))
}
fn bias_codec(m: BiasMsg, sig_index: usize, sat: u8) -> Codec<'static> {
    let w = m.bias_bits() as u32;
    let (kmin, kmax) = k_range(Kind::I, w);
    Codec {
        name: format!("bias{}", m.number()),
        is_f32: true,
        kmin,
        kmax,
        g: Box::new(move |k| bias_decode_pattern(m, sig_index, sat, pattern_of(Kind::I, w, k) as u16)),
        enc: Box::new(move |x| bias_encode(m, sig_index, sat, x)),
    }
}

// ---- bias values inside lists given in caller order ----
/// one list: entries (satellite, signal index, grid index k, t); every entry's decoded value must be one of the two
/// neighbours of its own input, whatever the order the caller listed the entries in
fn bias_list_case(m: BiasMsg, items: &[(u8, usize, i64, f64)]) -> Result<u64, (String, String)> {
    use crate::checks::c16;
    let w = m.bias_bits() as u32;
    let g = c16::grid(m);
    let mut es: Vec<c16::Entry> = Vec::new();
    let mut meta: Vec<(f64, f64, f64)> = Vec::new();
    for (sat, si, k, t) in items {
        let (_, band, attr) = m.signals()[*si % m.signals().len()];
        let g0 = g[pattern_of(Kind::I, w, *k) as usize] as f64;
        let g1 = g[pattern_of(Kind::I, w, *k + 1) as usize] as f64;
        if !(g1 > g0) {
            return Ok(0);
        }
        let x = ((g0 + t * (g1 - g0)) as f32).clamp(g0 as f32, g1 as f32);
        es.push(c16::Entry { sat: *sat, band, attr, bias: x });
        meta.push((g0, g1, x as f64));
    }
    let msg = match c16::make_message(m, &es) {
        Some(x) => x,
        None => return Ok(0),
    };
    let mut b = MessageBuilder::new();
    let f = match b.build_message(&msg) {
        Ok(f) => f.to_vec(),
        Err(_) => return Ok(0),
    };
    let back = MessageFrame::new(&f).map_err(|e| (format!("c11:bias{}:frame", m.number()), format!("{:?}", e)))?.get_message();
    let dec = match c16::entries_of(&back) {
        Some(d) => d,
        None => return Ok(0), // a C16 / C01 matter
    };
    let mut inside = 0;
    for (e, (g0, g1, x)) in es.iter().zip(meta.iter()) {
        if let Some(d) = dec.iter().find(|d| d.sat == e.sat && d.band == e.band && d.attr == e.attr) {
            let step = g1 - g0;
            let slack = 16.0 * 2f64.powi(-24) * (g0.abs().max(g1.abs()).max(x.abs()) + step);
            let dv = d.bias as f64;
            if (dv - x).abs() > step / 2.0 + slack {
                return Err((
                    format!("c11:bias{}:not-nearest", m.number()),
                    format!(
                        "{} list of {} entries in caller order: entry (satellite {}, signal {}{}) with input {:e} in [{:e},{:e}] comes back as {:e}, {:e} away (half step {:e})",
                        m.number(),
                        es.len(),
                        e.sat,
                        e.band,
                        e.attr,
                        x,
                        g0,
                        g1,
                        dv,
                        (dv - x).abs(),
                        step / 2.0
                    ),
                ));
            }
            if *x > *g0 && *x < *g1 {
                inside += 1;
            }
        }
    }
    Ok(inside)
}
fn bias_list_items(rng: &mut crate::rng::Rng, m: BiasMsg, arrangement: u64) -> Vec<(u8, usize, i64, f64)> {
    let w = m.bias_bits() as u32;
    let (kmin, kmax) = k_range(Kind::I, w);
    let nsig = m.signals().len();
    let mut keys: Vec<(u8, usize)> = Vec::new();
    match m {
        BiasMsg::M1230 => {
            // every ordered arrangement of every subset of the four signals, in turn (65 of them incl. the empty one)
            let mut all: Vec<Vec<usize>> = vec![vec![]];
            for a in 0..4 {
                all.push(vec![a]);
                for b in 0..4 {
                    if b != a {
                        all.push(vec![a, b]);
                        for c in 0..4 {
                            if c != a && c != b {
                                all.push(vec![a, b, c]);
                                for d in 0..4 {
                                    if d != a && d != b && d != c {
                                        all.push(vec![a, b, c, d]);
                                    }
                                }
                            }
                        }
                    }
                }
            }
            keys = all[(arrangement % all.len() as u64) as usize].iter().map(|s| (0u8, *s)).collect();
        }
        _ => {
            let nsat = 1 + rng.below(6) as usize;
            let sat_range = if m == BiasMsg::M1059 { 64 } else { 32 };
            let mut sats: Vec<u8> = Vec::new();
            while sats.len() < nsat {
                let s = rng.below(sat_range) as u8;
                if !sats.contains(&s) {
                    sats.push(s);
                }
            }
            for s in sats {
                let per = 1 + rng.below(nsig.min(5) as u64) as usize;
                let mut sig: Vec<usize> = (0..nsig).collect();
                rng.shuffle(&mut sig);
                for g in sig.into_iter().take(per) {
                    keys.push((s, g));
                }
            }
            rng.shuffle(&mut keys);
        }
    }
    keys.into_iter()
        .map(|(s, g)| {
            let k = match rng.below(8) {
                0 => kmin + 1 + rng.below(3) as i64,
                1 => kmax - 2 - rng.below(3) as i64,
                2 => rng.below(4) as i64 - 2,
                _ => kmin + 1 + rng.below((kmax - kmin - 2) as u64) as i64,
            };
            let t = match rng.below(6) {
                0 => 0.0,
                1 => 0.499999,
                2 => 0.500001,
                _ => rng.f64_unit(),
            };
            (s, g, k, t)
        })
        .collect()
}
fn bias_lists_pass(ctx: &Ctx) -> (Evidence, Vec<Violation>) {
    let n = ctx.n(240_000, 24_000_000);
    par_shards(48, |shard| {
        let mut ev = Evidence::new();
        ev.sample_cap = 0;
        let mut vs: Vec<Violation> = Vec::new();
        let m = [BiasMsg::M1059, BiasMsg::M1065, BiasMsg::M1230][shard % 3];
        let mut rng = ctx.rng("c11-bias-lists", shard as u64);
        for i in 0..n / 48 {
            let items = bias_list_items(&mut rng, m, i * 16 + (shard / 3) as u64);
            ev.evaluations += items.len() as u64;
            let r = catch(|| bias_list_case(m, &items));
            let r = match r {
                Ok(r) => r,
                Err(p) => Err((panic_signature(&p), format!("panic: {}", p))),
            };
            match r {
                Ok(inside) => {
                    ev.distinct_by_construction += inside;
                    let sorted = items.windows(2).all(|p| (p[0].0, p[0].1) <= (p[1].0, p[1].1));
                    ev.class_n(if items.len() >= 2 && !sorted { "bias-list/caller-order-not-canonical" } else { "bias-list/canonical-or-single" }, 1);
                }
                Err((sig, msg)) => {
                    if ctx.is_known(&sig) {
                        ev.excluded_known += 1;
                    } else if vs.is_empty() {
                        vs.push(Violation {
                            property: "C11".into(),
                            signature: sig,
                            message: msg,
                            case: json!({"kind":"bias-list","message":m.number(),"items":items.iter().map(|(s,g,k,t)| json!([s,g,k,t])).collect::<Vec<_>>()}),
                        });
                    }
                }
            }
        }
        (ev, vs)
    })
}

// ---- quantisation does not depend on where the value sits in the message ----
/// A list message with every float leaf of every element set to an in-range, off-grid value; the value that comes
/// back for element i of the n-element message must be bit-identical to what comes back when that element is the
/// only one (the field-level pass above establishes the single-element case against the grid).
fn context_pass(ctx: &Ctx) -> (Evidence, Vec<Violation>) {
    use crate::checks::c15::LIST_MSGS;
    use crate::msggen::{self, value_to_message};
    use crate::value::{schema_key, Step, Value};
    let corp = msggen::corpus(ctx.seed);
    let reps = ctx.n(30, 1500) as usize;
    let parts: Vec<(Evidence, Vec<Violation>)> = LIST_MSGS
        .par_iter()
        .map(|number| {
            let mut ev = Evidence::new();
            ev.sample_cap = 0;
            let mut vs: Vec<Violation> = Vec::new();
            let tc = match corp.of(*number) {
                Some(t) => t,
                None => return (ev, vs),
            };
            let base0 = &tc.bases[0];
            let mut all = Vec::new();
            base0.walk(&mut Vec::new(), &mut all);
            let path = match all.iter().find(|(p, n)| matches!(n, Value::Seq(_)) && !p.iter().any(|s| matches!(s, Step::Index(_)))) {
                Some((p, _)) => p.clone(),
                None => return (ev, vs),
            };
            let key = schema_key(&path);
            let (tpl, cap) = match tc.seq_templates.get(&key) {
                Some(t) => t.clone(),
                None => return (ev, vs),
            };
            // element pool (decoded elements: integers and flags in range)
            let mut pool: Vec<Value> = Vec::new();
            for b in &tc.bases {
                if let Some(Value::Seq(items)) = b.get(&path) {
                    for it in items {
                        if pool.len() < 64 {
                            pool.push(it.clone());
                        }
                    }
                }
            }
            if pool.is_empty() {
                pool.push(tpl.clone());
            }
            let mut leaves = Vec::new();
            tpl.walk(&mut Vec::new(), &mut leaves);
            let float_leaves: Vec<Vec<Step>> = leaves.iter().filter(|(_, n)| n.is_float()).map(|(p, _)| p.clone()).collect();
            if float_leaves.is_empty() {
                return (ev, vs);
            }
            let mut rng = ctx.rng("c11-context", *number as u64);
            let decode_items = |t: &Value| -> Option<Vec<Value>> {
                let m = value_to_message(t).ok()?;
                let f = msggen::build(&m).ok()?;
                let back = msggen::decode_frame(&f)?;
                match msggen::message_to_value(&back).get(&path) {
                    Some(Value::Seq(items)) => Some(items.clone()),
                    _ => None,
                }
            };
            for rep in 0..reps {
                let n = match rep % 3 {
                    0 => cap,
                    1 => cap.saturating_sub(1).max(1),
                    _ => 1 + rng.below(cap as u64) as usize,
                };
                let base = &tc.bases[rep % tc.bases.len()];
                let mut items: Vec<Value> = Vec::new();
                for i in 0..n {
                    let mut e = pool[(rep * 7 + i) % pool.len()].clone();
                    // distinct satellite ids where the element has one (some encoders refuse duplicates)
                    if let Some(Value::U8(sid)) = e.get_mut(&[Step::Field("satellite_id")]) {
                        *sid = (i % 64) as u8;
                    }
                    for lp in &float_leaves {
                        let mut full = path.clone();
                        full.push(Step::Index(0));
                        full.extend(lp.iter().cloned());
                        if let Some((lo, hi)) = tc.num_ranges.get(&schema_key(&full)).copied() {
                            let x = lo + (hi - lo) * rng.f64_unit();
                            match e.get_mut(lp) {
                                Some(Value::F32(v)) => *v = x as f32,
                                Some(Value::F64(v)) => *v = x,
                                _ => {}
                            }
                        }
                    }
                    items.push(e);
                }
                let mut full_tree = base.clone();
                if let Some(Value::Seq(s)) = full_tree.get_mut(&path) {
                    *s = items.clone();
                }
                let r = catch(|| decode_items(&full_tree));
                let dec_full = match r {
                    Ok(Some(d)) if d.len() == n => d,
                    Ok(_) => {
                        ev.class("context/message-refused-or-not-typed");
                        continue;
                    }
                    Err(p) => {
                        if vs.is_empty() {
                            vs.push(Violation { property: "C11".into(), signature: panic_signature(&p), message: format!("{}: panic: {}", number, p), case: json!({"kind":"context","number":number,"value":full_tree.to_json()}) });
                        }
                        continue;
                    }
                };
                for (i, e) in items.iter().enumerate() {
                    let mut single = base.clone();
                    if let Some(Value::Seq(s)) = single.get_mut(&path) {
                        *s = vec![e.clone()];
                    }
                    ev.evaluations += float_leaves.len() as u64;
                    let d1 = match catch(|| decode_items(&single)) {
                        Ok(Some(d)) if d.len() == 1 => d,
                        _ => continue,
                    };
                    let mut differs: Option<String> = None;
                    for lp in &float_leaves {
                        let a = dec_full[i].get(lp);
                        let b = d1[0].get(lp);
                        if a != b {
                            differs = Some(format!("{}: {:?} in the {}-element message, {:?} alone (input {:?})", schema_key(lp), a, n, b, e.get(lp)));
                            break;
                        }
                    }
                    match differs {
                        None => {
                            ev.distinct_by_construction += float_leaves.len() as u64;
                            if i == n - 1 && n == cap {
                                ev.class("context/last-element-of-a-full-list");
                            }
                        }
                        Some(d) => {
                            if vs.is_empty() {
                                vs.push(Violation {
                                    property: "C11".into(),
                                    signature: format!("c11:{}:value-depends-on-position", number),
                                    message: format!("{}: element {} of {}: the decoded value of {}", number, i, n, d),
                                    case: json!({"kind":"context","number":number,"index":i,"value":full_tree.to_json()}),
                                });
                            }
                        }
                    }
                }
                ev.class("context/list-message");
            }
            (ev, vs)
        })
        .collect();
    let mut ev = Evidence::new();
    let mut vs = Vec::new();
    for (e, v) in parts {
        ev.merge(e);
        vs.extend(v);
    }
    (ev, vs)
}

/// replay form of the context oracle on one message value
fn context_case(full_tree: &crate::value::Value) -> Result<(), (String, String)> {
    use crate::msggen::{self, value_to_message};
    use crate::value::{schema_key, Step, Value};
    let mut all = Vec::new();
    full_tree.walk(&mut Vec::new(), &mut all);
    let path = match all.iter().find(|(p, n)| matches!(n, Value::Seq(_)) && !p.iter().any(|s| matches!(s, Step::Index(_)))) {
        Some((p, _)) => p.clone(),
        None => return Ok(()),
    };
    let items = match full_tree.get(&path) {
        Some(Value::Seq(i)) => i.clone(),
        _ => return Ok(()),
    };
    let decode_items = |t: &Value| -> Option<(u16, Vec<Value>)> {
        let m = value_to_message(t).ok()?;
        let number = m.number().unwrap_or(0);
        let f = msggen::build(&m).ok()?;
        let back = msggen::decode_frame(&f)?;
        match msggen::message_to_value(&back).get(&path) {
            Some(Value::Seq(items)) => Some((number, items.clone())),
            _ => None,
        }
    };
    let (number, dec_full) = match catch(|| decode_items(full_tree)) {
        Ok(Some(d)) => d,
        Ok(None) => return Ok(()),
        Err(p) => return Err((panic_signature(&p), format!("panic: {}", p))),
    };
    for (i, e) in items.iter().enumerate() {
        let mut single = full_tree.clone();
        if let Some(Value::Seq(s)) = single.get_mut(&path) {
            *s = vec![e.clone()];
        }
        if let Ok(Some((_, d1))) = catch(|| decode_items(&single)) {
            let mut leaves = Vec::new();
            e.walk(&mut Vec::new(), &mut leaves);
            for (lp, node) in leaves.iter().filter(|(_, n)| n.is_float()) {
                let _ = node;
                if dec_full.get(i).and_then(|x| x.get(lp)) != d1.first().and_then(|x| x.get(lp)) {
                    return Err((format!("c11:{}:value-depends-on-position", number), format!("{}: element {} of {}: the decoded value of {} differs from the single-element message", number, i, items.len(), schema_key(lp))));
                }
            }
        }
    }
    Ok(())
}

fn codec_by_name(name: &str) -> Option<Codec<'static>> {
    match name {
        "bias1059" => Some(bias_codec(BiasMsg::M1059, 0, 7)),
        "bias1065" => Some(bias_codec(BiasMsg::M1065, 0, 7)),
        "bias1230" => Some(bias_codec(BiasMsg::M1230, 0, 0)),
        _ => FIELDS.iter().find(|f| f.name == name && f.is_float).map(field_codec),
    }
}

pub fn run(ctx: &Ctx, replay: Option<&J>) -> CheckResult {
    let nfloat = FIELDS.iter().filter(|f| f.is_float).count();
    let rule = format!(
        "every float-typed df! field ({} fields) and the three bias codecs (through messages; for 1059/1065 the entry under test follows another entry of the same satellite) x grid index k (both range ends, around zero, powers of two, \
         seeded random) x t in {{1e-9,1e-6,.1,.25,.49,.499999,.5,.500001,.51,.75,.9,.999999,1-1e-9}} + 3 random t + the grid points themselves (t=0, t=1) and -0.0 where 0 is a grid point; input x = g(k)+t*(g(k+1)-g(k)) rounded to the field's \
         float type, g = the decoder applied to consecutive patterns (intervals touching the 'absent' marker skipped). oracle: encode(x) is k or k+1, \
         |g(encode(x))-x| <= step/2 + 16u(max|g|,|x| + step) with u=2^-24/2^-53, indexes non-decreasing in x. non-trivial = input strictly between two grid points; \
         distinct = (field,k,t). plus bias lists in caller order: 1230 lists in every ordered arrangement of every subset of its four signals and 1059/1065 lists of 1..=6 satellites x 1..=5 signals in shuffled order, every entry an off-grid value, each entry's decoded value compared with its own input under the same bound; and position independence: list messages (31 types) filled to capacity / capacity-1 / a random length with in-range off-grid values in every float leaf, each element's decoded floats bit-identical to those of the single-element message",
        nfloat
    );
    let assumptions = vec![
        "grid defined by the decoder's own image of consecutive patterns (no second copy of the resolution table)".to_string(),
        "tolerance term derived from the three roundings in (x-b)/r +- 0.5 (DESIGN.md §3 C11)".to_string(),
    ];
    if let Some(c) = replay {
        let mut ev = Evidence::new();
        ev.eval();
        let mut vs = Vec::new();
        if c["kind"] == "context" {
            // replay of a context case: re-run the pass for that message type only is not possible from the case alone in a
            // cheaper way than re-evaluating the full message against its single-element forms
            if let Some(t) = c.get("value").and_then(crate::value::Value::from_json) {
                if let Err((sig, msg)) = context_case(&t) {
                    vs.push(Violation { property: "C11".into(), signature: sig, message: msg, case: c.clone() });
                }
            }
        } else if c["kind"] == "bias-list" {
            let m = match c["message"].as_u64() {
                Some(1059) => BiasMsg::M1059,
                Some(1065) => BiasMsg::M1065,
                _ => BiasMsg::M1230,
            };
            let items: Vec<(u8, usize, i64, f64)> = c["items"]
                .as_array()
                .map(|a| a.iter().map(|x| (x[0].as_u64().unwrap_or(0) as u8, x[1].as_u64().unwrap_or(0) as usize, x[2].as_i64().unwrap_or(0), x[3].as_f64().unwrap_or(0.0))).collect())
                .unwrap_or_default();
            let r = match catch(|| bias_list_case(m, &items)) {
                Ok(r) => r,
                Err(p) => Err((panic_signature(&p), format!("panic: {}", p))),
            };
            if let Err((sig, msg)) = r {
                vs.push(Violation { property: "C11".into(), signature: sig, message: msg, case: c.clone() });
            }
        } else if let Some(codec) = codec_by_name(c["field"].as_str().unwrap_or("")) {
            let k = c["k"].as_i64().unwrap_or(0);
            let ts: Vec<f64> = c["ts"].as_array().map(|a| a.iter().filter_map(|x| x.as_f64()).collect()).unwrap_or_else(|| TS.to_vec());
            let r = catch(|| interval(&codec, k, &ts));
            let r = match r {
                Ok(r) => r,
                Err(p) => Err((panic_signature(&p), format!("panic: {}", p))),
            };
            if let Err((sig, msg)) = r {
                vs.push(Violation { property: "C11".into(), signature: sig, message: msg, case: c.clone() });
            }
        }
        return CheckResult { evidence: ev, rule, assumptions, violations: vs };
    }
    let nrand = ctx.n(100_000, 4_000_000);
    let mut names: Vec<String> = FIELDS.iter().filter(|f| f.is_float).map(|f| f.name.to_string()).collect();
    names.extend(["bias1059".to_string(), "bias1065".to_string(), "bias1230".to_string()]);
    const SHARDS: u64 = 8;
    let jobs: Vec<(usize, u64)> = (0..names.len()).flat_map(|i| (0..SHARDS).map(move |s| (i, s))).collect();
    let parts: Vec<(Evidence, Vec<Violation>)> = jobs
        .par_iter()
        .map(|(i, shard)| {
            let mut ev = Evidence::new();
            ev.sample_cap = 1;
            let mut vs = Vec::new();
            let name = &names[*i];
            let codec = codec_by_name(name).unwrap();
            let mut rng = ctx.rng(&format!("c11-{}", name), *shard);
            let is_bias = name.starts_with("bias");
            let n = if is_bias { nrand / 8 } else { nrand } / SHARDS;
            let span = (codec.kmax - codec.kmin) as i128;
            let lo = codec.kmin + (span * (*shard as i128) / SHARDS as i128) as i64;
            let hi = if *shard == SHARDS - 1 { codec.kmax } else { codec.kmin + (span * (*shard as i128 + 1) / SHARDS as i128) as i64 };
            let ks = ks_for(codec.kmin, codec.kmax, lo, hi, n, &mut rng);
            for k in ks {
                let mut ts: Vec<f64> = TS.to_vec();
                for _ in 0..3 {
                    ts.push(rng.f64_unit());
                }
                // exact grid points (in particular exactly zero) as inputs too
                ts.push(0.0);
                ts.push(1.0);
                ts.sort_by(|a, b| a.partial_cmp(b).unwrap());
                ev.evaluations += ts.len() as u64;
                let r = catch(|| interval(&codec, k, &ts));
                let r = match r {
                    Ok(r) => r,
                    Err(p) => Err((panic_signature(&p), format!("panic: {}", p))),
                };
                match r {
                    Ok(inside) => {
                        ev.distinct_by_construction += inside;
                        if inside == 0 {
                            ev.class("interval-skipped(absent neighbour or collapsed)");
                        }
                    }
                    Err((sig, msg)) => {
                        if ctx.is_known(&sig) {
                            ev.excluded_known += 1;
                        } else if vs.len() < 1 {
                            vs.push(Violation { property: "C11".into(), signature: sig, message: msg, case: json!({"kind":"interval","field":name,"k":k,"ts":ts}) });
                        }
                    }
                }
            }
            ev.class_n(if is_bias { "codec/bias-via-message" } else if codec.is_f32 { "codec/f32-field" } else { "codec/f64-field" }, 1);
            if *shard == 0 && i % 23 == 0 {
                let g0 = codec.g(1).ok().flatten();
                let g1 = codec.g(2).ok().flatten();
                ev.sample(json!({"field":name,"k_range":[codec.kmin,codec.kmax],"f32":codec.is_f32,"g(1)":g0,"g(2)":g1,"t_values":TS.len()+3}));
            }
            (ev, vs)
        })
        .collect();
    let mut ev = Evidence::new();
    let mut vs = Vec::new();
    for (e, v) in parts {
        ev.merge(e);
        vs.extend(v);
    }
    let (bev, bvs) = bias_lists_pass(ctx);
    ev.merge(bev);
    vs.extend(bvs);
    let (cev, cvs) = context_pass(ctx);
    ev.merge(cev);
    vs.extend(cvs);
    ev.extra.insert("float_fields".into(), json!(nfloat));
    vs.truncate(8);
    CheckResult { evidence: ev, rule, assumptions, violations: vs }
}
