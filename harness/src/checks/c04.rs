//! C04 — corrupted frames are never delivered (fault enumeration over bit errors on valid frames).
use crate::bits::{hex, unhex};
use crate::frame::{ref_check, ref_scan, RefVerdict};
use crate::infra::*;
use crate::rng::Rng;
use rayon::prelude::*;
use rtcm_rs::prelude::*;
use serde_json::{json, Value as J};

/// damaged = valid frame with the listed bit positions flipped (positions are frame bit indexes, MSB first)
pub fn oracle(damaged: &[u8]) -> Result<(), (String, String)> {
    match MessageFrame::new(damaged) {
        Err(RtcmError::NotValid) => {}
        Ok(_) => return Err(("c04:damaged-accepted".into(), "MessageFrame::new accepted a damaged frame".into())),
        Err(e) => return Err(("c04:damaged-kind".into(), format!("damaged frame reported {:?}, expected NotValid", e))),
    }
    // the reference must agree that it is damaged (guards the harness itself)
    if ref_check(damaged) != RefVerdict::NotValid {
        return Err(("c04:harness".into(), "reference does not reject the damaged frame (harness defect)".into()));
    }
    let (c, f) = next_msg_frame(damaged);
    let (rc, rf) = ref_scan(damaged);
    let got = f.as_ref().map(|m| (c - m.frame_len(), c));
    if c != rc || got != rf {
        return Err((
            "c04:scanner-differs".into(),
            format!("scanner on damaged frame returned consumed={} frame={:?}, reference consumed={} frame={:?}", c, got, rc, rf),
        ));
    }
    if let Some((a, _)) = got {
        if a == 0 {
            return Err(("c04:scanner-delivered".into(), "scanner delivered the damaged frame".into()));
        }
    }
    Ok(())
}

/// the damaged frame in a stream next to its undamaged original (a corrupted retransmission): the frame iterator must
/// deliver exactly what the reference scanner delivers, in particular not the damaged copy
pub fn oracle_in_stream(original: &[u8], damaged: &[u8]) -> Result<(), (String, String)> {
    for order in 0..4 {
        let mut buf: Vec<u8> = Vec::with_capacity(original.len() * 5);
        match order {
            3 => {
                buf.extend_from_slice(original);
                buf.extend_from_slice(original);
                buf.extend_from_slice(damaged);
                buf.extend_from_slice(original);
                buf.extend_from_slice(original);
            }
            0 => {
                buf.extend_from_slice(original);
                buf.extend_from_slice(damaged);
            }
            1 => {
                buf.extend_from_slice(damaged);
                buf.extend_from_slice(original);
            }
            _ => {
                buf.extend_from_slice(original);
                buf.extend_from_slice(damaged);
                buf.extend_from_slice(original);
            }
        }
        let (rf, rt) = crate::frame::ref_scan_all(&buf);
        let base = buf.as_ptr() as usize;
        let mut it = MsgFrameIter::new(&buf);
        let mut frames: Vec<(usize, usize)> = Vec::new();
        for m in &mut it {
            let a = (m.frame_data().as_ptr() as usize).wrapping_sub(base);
            frames.push((a, a + m.frame_len()));
            if frames.len() > buf.len() {
                break;
            }
        }
        if frames != rf || it.consumed() != rt {
            return Err((
                "c04:iterator-delivers-damaged-copy".into(),
                format!("stream order {} (original/damaged): iterator frames {:?} consumed {}; reference {:?} consumed {}", order, frames, it.consumed(), rf, rt),
            ));
        }
        // mixed call sequences on one iterator (next, nth, size_hint, take, peek ...): never the damaged copy
        for k in 0..3u64 {
            if let Err((_, msg)) = crate::checks::c05::oracle_iter_ops(&buf, k * 7919 + order as u64 + buf.len() as u64) {
                return Err(("c04:iterator-delivers-damaged-copy".into(), format!("stream order {} (original/damaged): {}", order, msg)));
            }
        }
        // the same through repeated next_msg_frame calls
        let mut idx = 0usize;
        let mut got: Vec<(usize, usize)> = Vec::new();
        while idx < buf.len() {
            let (c, f) = next_msg_frame(&buf[idx..]);
            let had = f.is_some();
            if let Some(m) = f {
                got.push((idx + c - m.frame_len(), idx + c));
            }
            idx += c;
            if !had {
                break;
            }
        }
        if got != rf {
            return Err(("c04:scanner-delivers-damaged-copy".into(), format!("stream order {}: scanner frames {:?}; reference {:?}", order, got, rf)));
        }
    }
    Ok(())
}

fn flip(buf: &mut [u8], bit: usize) {
    buf[bit / 8] ^= 0x80 >> (bit % 8);
}

fn viol(sig: String, msg: String, f: &[u8], bits: &[usize], how: &str) -> Violation {
    Violation {
        property: "C04".into(),
        signature: sig,
        message: msg,
        case: json!({"kind":"damage","how":how,"frame":hex(f),"flip_bits":bits}),
    }
}

struct Acc {
    ev: Evidence,
    vs: Vec<Violation>,
    counter: u64,
    in_stream: u64,
}
impl Acc {
    fn try_damage(&mut self, f: &[u8], work: &mut Vec<u8>, bits: &[usize], how: &str) {
        work.clear();
        work.extend_from_slice(f);
        for &b in bits {
            flip(work, b);
        }
        self.ev.evaluations += 1;
        self.counter += 1;
        let mut r = oracle(work);
        // every 8th damaged frame is additionally placed in a stream next to its original (cost: three scans)
        if r.is_ok() && (self.counter % 8 == 0 || bits.len() == 1 && self.counter % 2 == 0) && f.len() <= 300 {
            r = oracle_in_stream(f, work);
            self.in_stream += 1;
        }
        match r {
            Ok(()) => {
                // distinct key: frame hash is mixed by the caller through `how`-independent hashing of the damaged bytes
                self.ev.nontrivial_hash(hash_bytes(work));
            }
            Err((sig, msg)) => {
                if self.vs.len() < 3 {
                    self.vs.push(viol(sig, msg, f, bits, how));
                }
            }
        }
    }
}

/// allowed bit positions: reserved header bits 8..14 and payload+checksum bits 24..8n
fn allowed_bits(n: usize) -> Vec<usize> {
    let mut v: Vec<usize> = (8..14).collect();
    v.extend(24..8 * n);
    v
}

fn damage_frame(name: &str, f: &[u8], rng: &mut Rng, deep: bool, pair_budget: usize, acc: &mut Acc) {
    let n = f.len();
    let bits = allowed_bits(n);
    let mut work = Vec::with_capacity(n);
    // every single bit
    for &b in &bits {
        acc.try_damage(f, &mut work, &[b], "single-bit");
    }
    acc.ev.class_n("single-bit", bits.len() as u64);
    // pairs: all for short frames, sampled otherwise
    if n <= 24 {
        for i in 0..bits.len() {
            for j in i + 1..bits.len() {
                acc.try_damage(f, &mut work, &[bits[i], bits[j]], "bit-pair");
            }
        }
        acc.ev.class_n("bit-pair/all", (bits.len() * (bits.len() - 1) / 2) as u64);
    } else {
        for _ in 0..pair_budget {
            let i = rng.below(bits.len() as u64) as usize;
            let mut j = rng.below(bits.len() as u64 - 1) as usize;
            if j >= i {
                j += 1;
            }
            acc.try_damage(f, &mut work, &[bits[i], bits[j]], "bit-pair");
        }
        acc.ev.class_n("bit-pair/sampled", pair_budget as u64);
    }
    // odd weight 3..31
    let odd_reps = if deep { 8 } else { 2 };
    for w in (3..=31usize).step_by(2) {
        if w > bits.len() {
            break;
        }
        for _ in 0..odd_reps {
            let mut sel: Vec<usize> = Vec::with_capacity(w);
            while sel.len() < w {
                let b = bits[rng.below(bits.len() as u64) as usize];
                if !sel.contains(&b) {
                    sel.push(b);
                }
            }
            acc.try_damage(f, &mut work, &sel, "odd-weight");
            acc.ev.class("odd-weight");
        }
    }
    // bursts of length 2..=24: first and last bit flipped, random interior; confined to the reserved bits or to
    // payload+checksum
    let mut burst = |start: usize, len: usize, lo: usize, hi: usize, rng: &mut Rng, acc: &mut Acc| {
        if start < lo || start + len > hi {
            return;
        }
        let mut sel = vec![start, start + len - 1];
        for k in 1..len - 1 {
            if rng.below(2) == 1 {
                sel.push(start + k);
            }
        }
        acc.try_damage(f, &mut work, &sel, "burst");
        acc.ev.class("burst");
    };
    for len in 2..=6usize {
        for start in 8..14 {
            burst(start, len, 8, 14, rng, acc);
        }
    }
    let lo = 24;
    let hi = 8 * n;
    let all_starts = deep || n <= 64;
    for len in 2..=24usize {
        if hi - lo < len {
            break;
        }
        if all_starts {
            for start in lo..=hi - len {
                burst(start, len, lo, hi, rng, acc);
            }
        } else {
            // both ends of the region plus sampled starts
            for start in [lo, lo + 1, hi - len, (hi - len).saturating_sub(1).max(lo)] {
                burst(start, len, lo, hi, rng, acc);
            }
            for _ in 0..48 {
                let start = lo + rng.below((hi - len - lo + 1) as u64) as usize;
                burst(start, len, lo, hi, rng, acc);
            }
        }
    }
    if acc.ev.want_sample() {
        acc.ev.sample(json!({"frame":name,"frame_len":n,"allowed_bits":bits.len(),"all_burst_starts":all_starts,"all_pairs":n<=24}));
    }
}

pub fn run(ctx: &Ctx, replay: Option<&J>) -> CheckResult {
    crate::crc::self_check();
    let rule = "valid frames (all golden frames of /repo/testdata plus random-payload frames of lengths 0..=1023 sampled/edge, the shortest frames L=0..=10 with clear reserved bits and L=0..=2 with all 64 reserved-bit patterns, frames whose checksum is 0x000000 / 0xFFFFFF / 0xD30000 / ...) x \
        {every single bit in reserved bits/payload/checksum; all bit pairs for frames <=24 bytes, sampled pairs otherwise; random odd-weight \
        patterns 3..31; bursts of every length 2..=24 (first and last bit flipped, random interior) at every start (short frames / thorough) \
        or at region ends + sampled starts}; preamble and the 10 length bits are not damaged. oracle: MessageFrame::new == Err(NotValid), \
        scanner result equals the reference scanner and delivers nothing at offset 0; a sample of the damaged frames (every second single-bit one, every 8th other, frames <=300 bytes) is also placed in streams original+damaged, damaged+original, original+damaged+original where MsgFrameIter and repeated next_msg_frame must deliver exactly the reference scanner's frames. every damaged frame is non-trivial; distinct = hash of damaged bytes"
        .to_string();
    let assumptions = vec![
        "damage confined to reserved bits, payload and checksum as the statement says".to_string(),
        "a frame nested deeper in the damaged bytes may be delivered if the reference scanner finds it too".to_string(),
    ];
    if let Some(case) = replay {
        let f = unhex(case["frame"].as_str().unwrap_or("")).unwrap_or_default();
        let bits: Vec<usize> = case["flip_bits"].as_array().map(|a| a.iter().filter_map(|x| x.as_u64()).map(|x| x as usize).collect()).unwrap_or_default();
        let mut acc = Acc { ev: Evidence::new(), vs: Vec::new(), counter: 0, in_stream: 0 };
        let mut work = Vec::new();
        acc.try_damage(&f, &mut work, &bits, "replay");
        return CheckResult { evidence: acc.ev, rule, assumptions, violations: acc.vs };
    }
    // frame pool
    let mut frames: Vec<(String, Vec<u8>)> = crate::pool::golden_frames();
    let golden = frames.len();
    let mut rng = ctx.rng("c04-pool", 0);
    let mut lens: Vec<usize> = vec![0, 1, 2, 3, 4, 5, 6, 7, 8, 9, 10, 12, 15, 16, 17, 18, 31, 32, 33, 63, 64, 65, 127, 128, 255, 256, 511, 512, 1021, 1022, 1023];
    let extra = ctx.n(200, 3000);
    for _ in 0..extra {
        lens.push(rng.below(1024) as usize);
    }
    for (i, l) in lens.iter().enumerate() {
        let class = if i % 5 == 4 { 5 } else { 2 };
        let p = crate::pool::payload_of_class(&mut rng, *l, class);
        frames.push((format!("random-L{}", l), crate::frame::frame_with_reserved(&p, if i % 3 == 0 { rng.below(64) as u8 } else { 0 })));
    }
    // the shortest frames (L = 0..=10) with every reserved bit clear and with all 64 reserved-bit patterns for L = 0, 1, 2
    for l in 0..=10usize {
        let p = crate::pool::payload_of_class(&mut rng, l, 2);
        frames.push((format!("short-L{}-reserved-0", l), crate::frame::frame_with_reserved(&p, 0)));
        if l <= 2 {
            for r in 1..64u8 {
                frames.push((format!("short-L{}-reserved-{}", l, r), crate::frame::frame_with_reserved(&p, r)));
            }
        }
    }
    // frames whose checksum is a special value (all-zero, all-one, 0xD3 bytes ...)
    for (k, target) in crate::pool::SPECIAL_CRCS.iter().enumerate() {
        for l in [3usize, 7, 40, 250] {
            if l > 40 && k % 3 != 0 {
                continue;
            }
            frames.push((format!("crc-{:06x}-L{}", target, l), crate::pool::frame_with_crc(&mut rng, l, 0, *target)));
        }
    }
    let deep = ctx.tier == Tier::Thorough;
    let pair_budget = ctx.n(4000, 60_000) as usize;
    let parts: Vec<Acc> = frames
        .par_iter()
        .enumerate()
        .map(|(i, (name, f))| {
            let mut acc = Acc { ev: Evidence::new(), vs: Vec::new(), counter: 0, in_stream: 0 };
            acc.ev.sample_cap = 1;
            let mut rng = ctx.rng("c04", i as u64);
            // every frame of the pool must itself be valid
            if !matches!(ref_check(f), RefVerdict::Accept(_)) || MessageFrame::new(f).is_err() {
                acc.ev.notes.push(format!("pool frame {} is not valid; skipped", name));
                return acc;
            }
            damage_frame(name, f, &mut rng, deep, pair_budget, &mut acc);
            acc
        })
        .collect();
    let mut ev = Evidence::new();
    let mut vs = Vec::new();
    let mut in_stream = 0u64;
    for a in parts {
        in_stream += a.in_stream;
        ev.merge(a.ev);
        vs.extend(a.vs);
    }
    ev.extra.insert("damaged_frames_also_scanned_in_a_stream_next_to_their_original".into(), json!(in_stream));
    ev.extra.insert("frames_in_pool".into(), json!(frames.len()));
    ev.extra.insert("golden_frames".into(), json!(golden));
    vs.truncate(5);
    CheckResult { evidence: ev, rule, assumptions, violations: vs }
}
