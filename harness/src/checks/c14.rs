//! C14 — decode outcome is classified by message number, exhaustively.
use crate::bits::{get_bits, hex, unhex, BitW};
use crate::frame::frame;
use crate::infra::*;
use crate::registry::{self, MSG_TABLE};
use rayon::prelude::*;
use rtcm_rs::prelude::*;
use serde_json::{json, Value as J};

fn payload_for(n: u16, shape: u64, rng: &mut crate::rng::Rng) -> Vec<u8> {
    // 12-bit number then body
    let (len, class) = match shape {
        0 => (2usize, 2u64),                          // two bytes only
        1 => (3 + rng.below(38) as usize, 2),         // short random
        2 => (1023, 0),                               // full-length zero
        3 => (1023, 1),                               // full-length ones
        4 => (1023, 2),                               // full-length random
        5 => (40 + rng.below(400) as usize, 3),       // sparse
        _ => (2 + rng.below(1022) as usize, 2),
    };
    let body = crate::pool::payload_of_class(rng, len, class);
    let mut w = BitW::new();
    w.put(n as u64, 12);
    let mut out = w.into_bytes(); // 2 bytes, low nibble of byte 1 = 0
    out[1] |= body[1] & 0x0F;
    out.extend_from_slice(&body[2..]);
    out
}

/// oracle for one CRC-valid frame whose payload is `p`
pub fn oracle_payload(p: &[u8], suffix: &[u8]) -> Result<&'static str, (String, String)> {
    oracle_payload_reserved(p, suffix, 0)
}
/// the six reserved header bits are not part of the classification
pub fn oracle_payload_reserved(p: &[u8], suffix: &[u8], reserved: u8) -> Result<&'static str, (String, String)> {
    let mut f = crate::frame::frame_with_reserved(p, reserved);
    f.extend_from_slice(suffix);
    let mf = MessageFrame::new(&f).map_err(|e| ("c14:valid-frame-rejected".to_string(), format!("{:?}", e)))?;
    let m = mf.get_message();
    let name = registry::variant_name(&m);
    let dbg = format!("{:?}", m);
    // the other public decode entry point, and decoding the same frame a second time, classify identically
    let m2 = Message::from_message_frame(&mf);
    let m3 = mf.get_message();
    if format!("{:?}", m2) != dbg || format!("{:?}", m3) != dbg {
        return Err((
            "c14:entry-points-disagree".into(),
            format!("MessageFrame::get_message gives {}, Message::from_message_frame {} and a second get_message {}", name, registry::variant_name(&m2), registry::variant_name(&m3)),
        ));
    }
    // the same frame found by the scanner behind two dead bytes is classified the same way
    {
        let mut buf = vec![0x00u8, 0x7F];
        buf.extend_from_slice(&f);
        let (_, found) = next_msg_frame(&buf);
        match found {
            Some(m4) => {
                let d4 = format!("{:?}", m4.get_message());
                if d4 != dbg {
                    return Err(("c14:classification-depends-on-position".into(), format!("frame at offset 0 decodes to {}, the same frame found by the scanner at offset 2 to {}", name, d4.chars().take(60).collect::<String>())));
                }
            }
            None => return Err(("c14:classification-depends-on-position".into(), "valid frame behind two dead bytes is not delivered by the scanner".into())),
        }
    }
    if p.len() < 2 {
        return if name == "Empty" {
            Ok("empty")
        } else {
            Err(("c14:short-payload-not-empty".into(), format!("payload of {} byte(s) decodes to {}", p.len(), name)))
        };
    }
    if name == "Empty" {
        return Err(("c14:empty-for-long-payload".into(), format!("payload of {} bytes decodes to Empty", p.len())));
    }
    let n = get_bits(p, 0, 12).unwrap() as u16;
    match MSG_TABLE.iter().find(|r| r.number == n) {
        None => match &m {
            Message::MsgNotSupported(t) if t.message_number == n => Ok("unsupported"),
            Message::MsgNotSupported(t) => Err(("c14:unsupported-wrong-number".into(), format!("number {} reported as MsgNotSupported({})", n, t.message_number))),
            _ => Err(("c14:unsupported-number-decoded".into(), format!("number {} is not a compiled-in type but decodes to {}", n, name))),
        },
        Some(row) => {
            if name == "Corrupt" {
                return Ok("corrupt");
            }
            if name != row.variant {
                return Err(("c14:wrong-variant".into(), format!("number {} decodes to variant {} (expected {} or Corrupt)", n, name, row.variant)));
            }
            if !dbg.starts_with(&format!("Msg{}(", n)) {
                return Err(("c14:debug-name".into(), format!("number {} decodes to a value printed as {}", n, dbg.chars().take(24).collect::<String>())));
            }
            if m.number() != Some(n) {
                return Err(("c14:number-method".into(), format!("typed message decoded from number {} reports number {:?}", n, m.number())));
            }
            Ok("typed")
        }
    }
}

/// reverse direction: a typed message reports the number it is encoded under
pub fn oracle_reverse(row: &registry::MsgRow, m: &Message) -> Result<(), (String, String)> {
    oracle_reverse_with(row, m, None)
}
/// `before`: the builder was used once before (for a message that was refused or built): the number a message is encoded
/// under must still be its own
pub fn oracle_reverse_with(row: &registry::MsgRow, m: &Message, before: Option<&Message>) -> Result<(), (String, String)> {
    match before {
        Some(d) => oracle_reverse_hist(row, m, &[d]),
        None => oracle_reverse_hist(row, m, &[]),
    }
}
/// `history`: what the builder was used for before, in order (the message itself may be among them)
pub fn oracle_reverse_hist(row: &registry::MsgRow, m: &Message, history: &[&Message]) -> Result<(), (String, String)> {
    if m.number() != Some(row.number) {
        return Err(("c14:number-method".into(), format!("variant {} reports number {:?}, table says {}", row.variant, m.number(), row.number)));
    }
    let mut b = MessageBuilder::new();
    for d in history {
        let _ = catch(std::panic::AssertUnwindSafe(|| b.build_message(d).map(|f| f.len()).ok()));
    }
    match b.build_message(m) {
        Ok(f) => {
            let n = get_bits(&f[3..], 0, 12).unwrap() as u16;
            if n != row.number {
                return Err(("c14:encoded-under-other-number".into(), format!("variant {} is encoded under number {}", row.variant, n)));
            }
            // and decodes back to the same variant
            let mf = MessageFrame::new(f).map_err(|e| ("c14:own-frame-rejected".to_string(), format!("{:?}", e)))?;
            let back = mf.get_message();
            let name = registry::variant_name(&back);
            if name != row.variant {
                return Err(("c14:reverse-variant".into(), format!("variant {} encodes to a frame that decodes to {}", row.variant, name)));
            }
            Ok(())
        }
        Err(e) => Err(("c14:default-not-encodable".into(), format!("default {} cannot be built: {:?}", row.variant, e))),
    }
}

pub fn run(ctx: &Ctx, replay: Option<&J>) -> CheckResult {
    let rule = "exhaustive over message numbers n=0..4095 x payload shapes {2 bytes, short random, 1023 zero/ones/random, sparse, random length} \
        with and without trailing bytes and with zero / random reserved header bits, plus payloads of 0 and 1 byte under all 64 reserved-bit patterns; both decode entry points (MessageFrame::get_message, Message::from_message_frame) and a repeated call must agree; supported set = rows of the table in src/msg/message.rs (scanned at build \
        time) which must equal the msgNNNN features and the all_msgs list of Cargo.toml; oracle: n not supported => MsgNotSupported{n}; supported \
        => variant of n or Corrupt; L<2 <=> Empty; typed.number()==n; reverse: every variant's default and decoded golden message is encoded \
        under its own number, also on a builder that was used once before (refused early / late, long frame) and on a builder that built the message itself and then another (refused or long) message. all cases non-trivial; distinct = (n, shape, repetition)"
        .to_string();
    let assumptions = vec![
        "the supported set is read from the repository's own table and Cargo.toml, cross-checked against each other".to_string(),
        "the harness builds the crate with default features (all_msgs)".to_string(),
    ];
    if let Some(case) = replay {
        let mut ev = Evidence::new();
        ev.eval();
        let mut vs = Vec::new();
        if case["kind"] == "payload" {
            let p = unhex(case["payload"].as_str().unwrap_or("")).unwrap_or_default();
            let s = unhex(case["suffix"].as_str().unwrap_or("")).unwrap_or_default();
            if let Err((sig, msg)) = oracle_payload_reserved(&p, &s, case["reserved"].as_u64().unwrap_or(0) as u8) {
                vs.push(Violation { property: "C14".into(), signature: sig, message: msg, case: case.clone() });
            }
        } else if case["kind"] == "reverse-used-builder" {
            let n = case["number"].as_u64().unwrap_or(0) as u16;
            let before = case.get("before").and_then(crate::value::Value::from_json).and_then(|t| crate::msggen::value_to_message(&t).ok());
            if let (Some(row), Some(m)) = (MSG_TABLE.iter().find(|r| r.number == n), registry::default_message(n)) {
                let r = match (&before, case["sandwich"].as_bool().unwrap_or(false)) {
                    (Some(d), true) => oracle_reverse_hist(row, &m, &[&m, d]).map_err(|(sig, msg)| (format!("{}(after-itself-and-another-build)", sig), msg)),
                    _ => oracle_reverse_with(row, &m, before.as_ref()),
                };
                if let Err((sig, msg)) = r {
                    vs.push(Violation { property: "C14".into(), signature: sig, message: msg, case: case.clone() });
                }
            }
        } else if case["kind"] == "reverse-default" {
            let n = case["number"].as_u64().unwrap_or(0) as u16;
            if let (Some(row), Some(m)) = (MSG_TABLE.iter().find(|r| r.number == n), registry::default_message(n)) {
                if let Err((sig, msg)) = oracle_reverse(row, &m) {
                    vs.push(Violation { property: "C14".into(), signature: sig, message: msg, case: case.clone() });
                }
            }
        } else {
            vs.extend(table_checks());
        }
        return CheckResult { evidence: ev, rule, assumptions, violations: vs };
    }
    let mut ev = Evidence::new();
    let mut vs: Vec<Violation> = Vec::new();
    // configuration half: table rows == msg features == all_msgs
    vs.extend(table_checks());
    ev.evaluations += 3;
    ev.extra.insert("supported_numbers".into(), json!(MSG_TABLE.len()));

    let reps = ctx.n(40, 3000);
    let parts: Vec<(Evidence, Vec<Violation>)> = (0..4096u32)
        .into_par_iter()
        .map(|n| {
            let n = n as u16;
            let mut ev = Evidence::new();
            ev.sample_cap = 1;
            let mut vs = Vec::new();
            let mut rng = ctx.rng("c14", n as u64);
            for rep in 0..reps {
                for shape in 0..7u64 {
                    let p = payload_for(n, shape, &mut rng);
                    for with_suffix in [false, true] {
                        let suffix = if with_suffix { rng.bytes_len(1, 12) } else { Vec::new() };
                        ev.eval();
                        let reserved = if (shape + rep) % 2 == 0 { 0 } else { rng.below(64) as u8 };
                        let r = catch(|| oracle_payload_reserved(&p, &suffix, reserved));
                        let r = match r {
                            Ok(r) => r,
                            Err(pm) => Err((panic_signature(&pm), format!("panic: {}", pm))),
                        };
                        match r {
                            Ok(c) => {
                                ev.distinct_by_construction += 1;
                                ev.class(&format!("{}/shape{}", c, shape));
                                if n % 389 == 0 && shape == 1 && !with_suffix && rep == 0 {
                                    ev.sample(json!({"number":n,"shape":shape,"outcome":c,"payload_prefix":hex(&p[..p.len().min(8)])}));
                                }
                            }
                            Err((sig, msg)) => {
                                if ctx.is_known(&sig) {
                                    ev.excluded_known += 1;
                                } else if vs.len() < 2 {
                                    vs.push(Violation {
                                        property: "C14".into(),
                                        signature: sig,
                                        message: msg,
                                        case: json!({"kind":"payload","payload":hex(&p),"suffix":hex(&suffix),"reserved":reserved}),
                                    });
                                }
                            }
                        }
                    }
                }
            }
            (ev, vs)
        })
        .collect();
    for (e, v) in parts {
        ev.merge(e);
        vs.extend(v);
    }
    // payloads of 0 and 1 byte
    let mut rng = ctx.rng("c14-short", 0);
    for b in 0..=256u32 {
        let p: Vec<u8> = if b == 256 { vec![] } else { vec![b as u8] };
        for with_suffix in [false, true] {
            let suffix = if with_suffix { rng.bytes_len(1, 8) } else { Vec::new() };
            ev.eval();
            // payloads of 0 and 1 byte under every reserved-bit pattern
            let mut r0 = oracle_payload(&p, &suffix);
            for reserved in 1..64u8 {
                if r0.is_ok() {
                    ev.eval();
                    r0 = oracle_payload_reserved(&p, &suffix, reserved);
                    if r0.is_ok() {
                        ev.distinct_by_construction += 1;
                    }
                }
            }
            match r0 {
                Ok(c) => {
                    ev.distinct_by_construction += 1;
                    ev.class(&format!("{}/short", c));
                }
                Err((sig, msg)) => {
                    if ctx.is_known(&sig) {
                        ev.excluded_known += 1;
                    } else if vs.len() < 6 {
                        vs.push(Violation { property: "C14".into(), signature: sig, message: msg, case: json!({"kind":"payload","payload":hex(&p),"suffix":hex(&suffix)}) });
                    }
                }
            }
        }
    }
    // reverse direction: defaults and decoded golden frames of every variant
    for row in MSG_TABLE {
        if let Some(m) = registry::default_message(row.number) {
            ev.eval();
            match oracle_reverse(row, &m) {
                Ok(()) => {
                    ev.distinct_by_construction += 1;
                    ev.class("reverse/default");
                }
                Err((sig, _)) if sig == "c14:default-not-encodable" => ev.class("reverse/default-refused-by-encoder"),
                Err((sig, msg)) => vs.push(Violation { property: "C14".into(), signature: sig, message: msg, case: json!({"kind":"reverse-default","number":row.number}) }),
            }
        }
    }
    // the same on a builder that was used once before, for every kind of first use (refused early / late, long frame)
    {
        let pool = crate::checks::c12::pool(ctx.seed);
        let dist = crate::checks::c12::disturbers(ctx.seed);
        for row in MSG_TABLE {
            if let Some(m) = registry::default_message(row.number) {
                for di in dist.iter() {
                    let d = &pool[*di];
                    ev.eval();
                    // and sandwiched: the message itself, then the disturber, then the message again
                    ev.eval();
                    let sandwich = oracle_reverse_hist(row, &m, &[&m, &d.msg]).map_err(|(sig, msg)| (format!("{}(after-itself-and-another-build)", sig), msg));
                    match oracle_reverse_with(row, &m, Some(&d.msg)).and(sandwich) {
                        Ok(()) => {
                            ev.distinct_by_construction += 2;
                            ev.class("reverse/default-on-a-used-builder");
                            ev.class("reverse/default-built-again-after-another-build");
                        }
                        Err((sig, _)) if sig.starts_with("c14:default-not-encodable") => {}
                        Err((sig, msg)) => {
                            if !vs.iter().any(|v| v.signature == sig) {
                                let sandwiched = sig.ends_with("(after-itself-and-another-build)");
                                vs.push(Violation {
                                    property: "C14".into(),
                                    signature: sig,
                                    message: format!("builder used before for [{}]{}: {}", d.label, if sandwiched { " after the message itself" } else { "" }, msg),
                                    case: json!({"kind":"reverse-used-builder","number":row.number,"before":d.tree.to_json(),"sandwich":sandwiched}),
                                });
                            }
                        }
                    }
                }
            }
        }
    }
    for (name, f) in crate::pool::golden_frames() {
        if let Ok(mf) = MessageFrame::new(&f) {
            let m = mf.get_message();
            if let Some(n) = mf.message_number() {
                if let Some(row) = MSG_TABLE.iter().find(|r| r.number == n) {
                    if registry::variant_name(&m) == row.variant {
                        ev.eval();
                        match oracle_reverse(row, &m) {
                            Ok(()) => {
                                ev.distinct_by_construction += 1;
                                ev.class("reverse/golden");
                            }
                            Err((sig, msg)) => {
                                if sig != "c14:default-not-encodable" {
                                    vs.push(Violation { property: "C14".into(), signature: sig, message: msg, case: json!({"kind":"payload","payload":hex(mf.data()),"suffix":"","golden":name}) })
                                }
                            }
                        }
                    }
                }
            }
        }
    }
    ev.exhaustive = Some(true);
    ev.extra.insert("exhaustive_subdomain".into(), json!("all 4096 message numbers x 7 payload shapes x {no suffix, suffix}; payload contents sampled"));
    vs.truncate(6);
    CheckResult { evidence: ev, rule, assumptions, violations: vs }
}

fn table_checks() -> Vec<Violation> {
    let mut vs = Vec::new();
    let mut table: Vec<String> = MSG_TABLE.iter().map(|r| r.feature.to_string()).collect();
    let mut feats: Vec<String> = registry::CARGO_MSG_FEATURES.iter().map(|s| s.to_string()).collect();
    let mut all: Vec<String> = registry::CARGO_ALL_MSGS.iter().map(|s| s.to_string()).collect();
    table.sort();
    feats.sort();
    all.sort();
    let diff = |a: &Vec<String>, b: &Vec<String>| -> Vec<String> {
        let mut d: Vec<String> = a.iter().filter(|x| !b.contains(x)).cloned().collect();
        d.extend(b.iter().filter(|x| !a.contains(x)).cloned());
        d
    };
    if table != feats {
        vs.push(Violation {
            property: "C14".into(),
            signature: "c14:table-vs-features".into(),
            message: format!("message table rows and msgNNNN features differ: {:?}", diff(&table, &feats)),
            case: json!({"kind":"table"}),
        });
    }
    if table != all {
        vs.push(Violation {
            property: "C14".into(),
            signature: "c14:table-vs-all_msgs".into(),
            message: format!("message table rows and the all_msgs feature list differ: {:?}", diff(&table, &all)),
            case: json!({"kind":"table"}),
        });
    }
    for r in MSG_TABLE {
        if r.feature != format!("msg{}", r.number) || r.variant != format!("Msg{}", r.number) {
            vs.push(Violation {
                property: "C14".into(),
                signature: "c14:row-inconsistent".into(),
                message: format!("row {:?} pairs feature/variant/number inconsistently", r),
                case: json!({"kind":"table"}),
            });
        }
    }
    let mut nums: Vec<u16> = MSG_TABLE.iter().map(|r| r.number).collect();
    nums.sort();
    nums.dedup();
    if nums.len() != MSG_TABLE.len() {
        vs.push(Violation { property: "C14".into(), signature: "c14:duplicate-number".into(), message: "duplicate number in table".into(), case: json!({"kind":"table"}) });
    }
    vs
}
