//! C18 — signal identifier tables are one-to-one and ordered as on the wire.
use crate::bits::get_bits;
use crate::infra::*;
use crate::msggen::{self, corpus, value_to_message};
use crate::msm::{Cons, ALL_CONS, SIG_MASK_AT};
use rayon::prelude::*;
use rtcm_rs::msg::{BdsSigId, GalSigId, GloSigId, GpsSigId, NavicSigId, QzssSigId, SbasSigId};
use rtcm_rs::prelude::*;
use serde_json::{json, Value as J};
use std::cmp::Ordering;

/// constellation-independent view of the seven SigId types
fn is_valid(c: Cons, b: u8, a: char) -> bool {
    match c {
        Cons::Gps => GpsSigId::new(b, a).is_valid(),
        Cons::Glo => GloSigId::new(b, a).is_valid(),
        Cons::Gal => GalSigId::new(b, a).is_valid(),
        Cons::Sbas => SbasSigId::new(b, a).is_valid(),
        Cons::Qzss => QzssSigId::new(b, a).is_valid(),
        Cons::Bds => BdsSigId::new(b, a).is_valid(),
        Cons::Navic => NavicSigId::new(b, a).is_valid(),
    }
}
fn accessors_ok(c: Cons, b: u8, a: char) -> bool {
    match c {
        Cons::Gps => { let s = GpsSigId::new(b, a); s.band() == b && s.attribute() == a }
        Cons::Glo => { let s = GloSigId::new(b, a); s.band() == b && s.attribute() == a }
        Cons::Gal => { let s = GalSigId::new(b, a); s.band() == b && s.attribute() == a }
        Cons::Sbas => { let s = SbasSigId::new(b, a); s.band() == b && s.attribute() == a }
        Cons::Qzss => { let s = QzssSigId::new(b, a); s.band() == b && s.attribute() == a }
        Cons::Bds => { let s = BdsSigId::new(b, a); s.band() == b && s.attribute() == a }
        Cons::Navic => { let s = NavicSigId::new(b, a); s.band() == b && s.attribute() == a }
    }
}
/// the comparison operators and Ord helpers on a pair: [<, <=, >, >=, !=, max is y, min is x, clamp(x,x,y) is x]
fn ops(c: Cons, x: (u8, char), y: (u8, char)) -> [bool; 6] {
    macro_rules! go {
        ($t:ty) => {{
            let p = <$t>::new(x.0, x.1);
            let q = <$t>::new(y.0, y.1);
            [p < q, p <= q, p > q, p >= q, p != q, core::cmp::Ord::max(p, q) == q && core::cmp::Ord::min(p, q) == p]
        }};
    }
    match c {
        Cons::Gps => go!(GpsSigId),
        Cons::Glo => go!(GloSigId),
        Cons::Gal => go!(GalSigId),
        Cons::Sbas => go!(SbasSigId),
        Cons::Qzss => go!(QzssSigId),
        Cons::Bds => go!(BdsSigId),
        Cons::Navic => go!(NavicSigId),
    }
}
fn cmp(c: Cons, x: (u8, char), y: (u8, char)) -> (Ordering, Option<Ordering>, bool) {
    macro_rules! go {
        ($t:ty) => {{
            let p = <$t>::new(x.0, x.1);
            let q = <$t>::new(y.0, y.1);
            (p.cmp(&q), p.partial_cmp(&q), p == q)
        }};
    }
    match c {
        Cons::Gps => go!(GpsSigId),
        Cons::Glo => go!(GloSigId),
        Cons::Gal => go!(GalSigId),
        Cons::Sbas => go!(SbasSigId),
        Cons::Qzss => go!(QzssSigId),
        Cons::Bds => go!(BdsSigId),
        Cons::Navic => go!(NavicSigId),
    }
}

/// wire observation: a one-cell MSM1 message of constellation c with descriptor d
/// Ok(Some(position)) built (exactly one signal-mask bit set, at `position`, decodes back to d), Ok(None) refused with InvalidSignalId
fn wire_position(c: Cons, d: (u8, char), sat: u8) -> Result<Option<u8>, (String, String)> {
    match catch(|| wire_position_inner(c, d, sat)) {
        Ok(r) => r,
        Err(p) => Err((panic_signature(&p), format!("{} descriptor {:?}: building a one-cell MSM1 message panicked: {}", c.name(), d, p))),
    }
}
fn wire_position_inner(c: Cons, d: (u8, char), sat: u8) -> Result<Option<u8>, (String, String)> {
    let corp = msggen::corpus_get();
    let number = c.base() + 1;
    let tc = corp.of(number).ok_or_else(|| ("c18:harness".to_string(), format!("no corpus for {}", number)))?;
    let tree = msggen::msm_value(tc, &[sat], &[(sat, d)]).ok_or_else(|| ("c18:harness".to_string(), "no MSM row templates".to_string()))?;
    let m = value_to_message(&tree).map_err(|e| ("c18:harness".to_string(), e))?;
    let mut b = MessageBuilder::new();
    match b.build_message(&m) {
        Err(RtcmError::InvalidSignalId) => Ok(None),
        Err(e) => Err((format!("c18:{}:wrong-error", c.name()), format!("{} descriptor {:?}: one-cell MSM1 refused with {:?} (expected InvalidSignalId or a frame)", c.name(), d, e))),
        Ok(f) => {
            let mask = get_bits(&f[3..], SIG_MASK_AT, 32).unwrap_or(0) as u32;
            if mask.count_ones() != 1 {
                return Err((format!("c18:{}:mask-bits", c.name()), format!("{} descriptor {:?}: signal mask {:#010x} has {} bits set", c.name(), d, mask, mask.count_ones())));
            }
            let pos = (mask.leading_zeros() + 1) as u8;
            // decodes back to d
            let back = msggen::decode_frame(f).ok_or_else(|| ("c18:harness".to_string(), "own frame rejected".to_string()))?;
            let bt = msggen::message_to_value(&back);
            let got = crate::msm::msm_list(&bt, "signal_data").and_then(|l| l.first()).and_then(crate::msm::row_sig);
            if got != Some(d) {
                return Err((format!("c18:{}:decode-back", c.name()), format!("{} descriptor {:?} at mask position {} decodes back to {:?}", c.name(), d, pos, got)));
            }
            Ok(Some(pos))
        }
    }
}

fn viol(sig: String, msg: String, c: Cons, ds: &[(u8, char)]) -> Violation {
    Violation {
        property: "C18".into(),
        signature: sig,
        message: msg,
        case: json!({"kind":"descriptors","constellation":c.name(),"descriptors":ds.iter().map(|d| json!([d.0, d.1 as u32])).collect::<Vec<_>>()}),
    }
}

/// order oracle on a triple
fn order_oracle(c: Cons, x: (u8, char), y: (u8, char), z: (u8, char)) -> Result<(), (String, String)> {
    match catch(|| order_oracle_inner(c, x, y, z)) {
        Ok(r) => r,
        Err(p) => Err((panic_signature(&p), format!("{}: comparing {:?}, {:?}, {:?} panicked: {}", c.name(), x, y, z, p))),
    }
}
fn order_oracle_inner(c: Cons, x: (u8, char), y: (u8, char), z: (u8, char)) -> Result<(), (String, String)> {
    let n = c.name();
    let px = c.pos_of(x.0, x.1);
    let py = c.pos_of(y.0, y.1);
    let (xy, pxy, eq_xy) = cmp(c, x, y);
    let (yx, _, _) = cmp(c, y, x);
    let (xx, _, eq_xx) = cmp(c, x, x);
    if xx != Ordering::Equal || !eq_xx {
        return Err((format!("c18:{}:not-reflexive", n), format!("{:?} does not compare equal to itself", x)));
    }
    if xy != yx.reverse() {
        return Err((format!("c18:{}:not-antisymmetric", n), format!("cmp({:?},{:?})={:?} but cmp({:?},{:?})={:?}", x, y, xy, y, x, yx)));
    }
    if (xy == Ordering::Equal) != (x == y) || eq_xy != (x == y) {
        return Err((format!("c18:{}:inconsistent-with-eq", n), format!("cmp({:?},{:?})={:?}, == gives {}", x, y, xy, eq_xy)));
    }
    match (px, py) {
        (Some(a), Some(b)) => {
            if xy != a.cmp(&b) {
                return Err((format!("c18:{}:recognised-order", n), format!("recognised {:?} (position {}) vs {:?} (position {}) compare as {:?}", x, a, y, b, xy)));
            }
            if pxy != Some(xy) {
                return Err((format!("c18:{}:partial-cmp-disagrees", n), format!("partial_cmp({:?},{:?})={:?} but cmp={:?}", x, y, pxy, xy)));
            }
            // the operators (PartialOrd's lt/le/gt/ge, PartialEq's ne) and Ord::max/min on recognised pairs
            let o = ops(c, x, y);
            let want = [a < b, a <= b, a > b, a >= b, a != b, a <= b];
            if o != want {
                return Err((
                    format!("c18:{}:operators-disagree", n),
                    format!("recognised {:?} (position {}) vs {:?} (position {}): [<, <=, >, >=, !=, max/min ordered] = {:?}, positions give {:?}", x, a, y, b, o, want),
                ));
            }
        }
        (Some(_), None) => {
            if xy != Ordering::Less {
                return Err((format!("c18:{}:unrecognised-not-after", n), format!("recognised {:?} vs unrecognised {:?} compare as {:?}", x, y, xy)));
            }
        }
        (None, Some(_)) => {
            if xy != Ordering::Greater {
                return Err((format!("c18:{}:unrecognised-not-after", n), format!("unrecognised {:?} vs recognised {:?} compare as {:?}", x, y, xy)));
            }
        }
        (None, None) => {}
    }
    // transitivity on (x,y,z)
    let (yz, _, _) = cmp(c, y, z);
    let (xz, _, _) = cmp(c, x, z);
    if xy != Ordering::Greater && yz != Ordering::Greater && xz == Ordering::Greater {
        return Err((format!("c18:{}:not-transitive", n), format!("{:?} <= {:?} <= {:?} but cmp(first,last)={:?}", x, y, z, xz)));
    }
    if xy != Ordering::Less && yz != Ordering::Less && xz == Ordering::Less {
        return Err((format!("c18:{}:not-transitive", n), format!("{:?} >= {:?} >= {:?} but cmp(first,last)={:?}", x, y, z, xz)));
    }
    Ok(())
}

fn sample_desc(rng: &mut crate::rng::Rng, c: Cons) -> (u8, char) {
    let t = c.table();
    match rng.below(6) {
        0 | 1 | 2 => {
            let e = t[rng.below(t.len() as u64) as usize];
            (e.1, e.2)
        }
        3 => {
            // near miss: right band wrong attribute / right attribute wrong band
            let e = t[rng.below(t.len() as u64) as usize];
            if rng.below(2) == 0 {
                (e.1, char::from_u32(0x41 + rng.below(26) as u32).unwrap())
            } else {
                (rng.below(10) as u8, e.2)
            }
        }
        4 => (rng.below(256) as u8, char::from_u32(rng.below(256) as u32).unwrap()),
        _ => (rng.below(256) as u8, char::from_u32(0x100 + rng.below(0x2000) as u32).unwrap_or('x')),
    }
}

pub fn run(ctx: &Ctx, replay: Option<&J>) -> CheckResult {
    let rule = "exhaustive: 7 constellations x band 0..=255 x attribute U+0000..U+00FF (458752 descriptors) + 100000 sampled other characters: is_valid(d) <=> d in the pinned \
        RTCM/RINEX table; every recognised descriptor and every descriptor of bands 0..=9 x all Latin-1 attributes plus sampled others and the arithmetic neighbourhood of every recognised descriptor (band +-1, +-2, +-16, +128; attribute code point +-2^j and bit j flipped for j=0..20, case flipped) through a one-cell MSM1 message: recognised => \
        exactly one signal-mask bit, at the pinned position (2..32), decoding back to d (bijection counted both ways); unrecognised => InvalidSignalId. order: all pairs of Latin-1 attributes within bands 0, 1, 2, 5, 255, all pairs and \
        triples of recognised descriptors, all (recognised, near-miss) pairs, and seeded random triples: recognised compare by position, unrecognised after them, reflexive / \
        antisymmetric / transitive / consistent with ==, partial_cmp == Some(cmp) and the operators <, <=, >, >=, != and Ord::max/min agree with the positions on recognised pairs. all cases non-trivial; distinct by construction (enumeration) or by hash (samples)"
        .to_string();
    let assumptions = vec![
        "signal tables typed from RTCM 10403.3 MSM signal tables / RINEX codes in the harness (msm.rs), not read from the source".to_string(),
        "nothing is asserted about partial_cmp on unrecognised descriptors (not in the statement)".to_string(),
    ];
    // the corpus used for wire observations does not depend on the seed (templates only)
    let _ = corpus(ctx.seed);
    if let Some(c) = replay {
        let mut ev = Evidence::new();
        ev.eval();
        let mut vs = Vec::new();
        let cons = ALL_CONS.iter().copied().find(|k| k.name() == c["constellation"].as_str().unwrap_or("")).unwrap_or(Cons::Gps);
        let ds: Vec<(u8, char)> = c["descriptors"].as_array().map(|a| a.iter().filter_map(|p| Some((p.get(0)?.as_u64()? as u8, char::from_u32(p.get(1)?.as_u64()? as u32)?))).collect()).unwrap_or_default();
        for d in &ds {
            if let Err((sig, msg)) = membership(cons, *d) {
                vs.push(viol(sig, msg, cons, &ds));
            }
        }
        if ds.len() >= 2 {
            let z = if ds.len() >= 3 { ds[2] } else { ds[0] };
            if let Err((sig, msg)) = order_oracle(cons, ds[0], ds[1], z) {
                vs.push(viol(sig, msg, cons, &ds));
            }
        }
        return CheckResult { evidence: ev, rule, assumptions, violations: vs };
    }
    let mut ev = Evidence::new();
    let mut vs: Vec<Violation> = Vec::new();
    // ---- membership: exhaustive over band x Latin-1 attribute ----
    let parts: Vec<(Evidence, Vec<Violation>)> = ALL_CONS
        .par_iter()
        .flat_map(|c| (0..=255u32).into_par_iter().map(move |b| (*c, b as u8)))
        .map(|(c, band)| {
            let mut ev = Evidence::new();
            let mut vs = Vec::new();
            for a in 0..=255u32 {
                let attr = char::from_u32(a).unwrap();
                ev.evaluations += 1;
                let through_wire = band <= 9 || c.pos_of(band, attr).is_some();
                let r = if through_wire { membership(c, (band, attr)) } else { membership_only(c, (band, attr)) };
                match r {
                    Ok(()) => ev.distinct_by_construction += 1,
                    Err((sig, msg)) => {
                        if vs.len() < 2 {
                            vs.push(viol(sig, msg, c, &[(band, attr)]));
                        }
                    }
                }
            }
            (ev, vs)
        })
        .collect();
    for (e, v) in parts {
        ev.merge(e);
        vs.extend(v);
    }
    ev.class_n("membership/exhaustive(band x latin1)", ev.evaluations);
    // sampled other characters
    let (sev, svs) = par_shards(16, |shard| {
        let mut ev = Evidence::new();
        let mut vs = Vec::new();
        let mut rng = ctx.rng("c18-chars", shard as u64);
        for _ in 0..100_000 / 16 {
            let c = ALL_CONS[rng.below(7) as usize];
            let band = if rng.below(2) == 0 { rng.below(10) as u8 } else { rng.below(256) as u8 };
            let attr = loop {
                let cp = match rng.below(3) {
                    0 => 0x100 + rng.below(0x800) as u32,
                    1 => 0x800 + rng.below(0xF000) as u32,
                    _ => 0x10000 + rng.below(0x100000) as u32,
                };
                if let Some(ch) = char::from_u32(cp) {
                    break ch;
                }
            };
            ev.evaluations += 1;
            match membership(c, (band, attr)) {
                Ok(()) => {
                    ev.nontrivial_hash(hash_u64s(&[c.base() as u64, band as u64, attr as u64]));
                    ev.class("membership/sampled-non-latin1");
                }
                Err((sig, msg)) => {
                    if vs.is_empty() {
                        vs.push(viol(sig, msg, c, &[(band, attr)]));
                    }
                }
            }
        }
        (ev, vs)
    });
    ev.merge(sev);
    vs.extend(svs);
    // ---- neighbourhood of every recognised descriptor: band +-d and attribute code point +- 2^j (incl. combinations) ----
    for c in ALL_CONS {
        for (_, b, a) in c.table() {
            let mut cands: Vec<(u8, char)> = Vec::new();
            let a0 = *a as u32;
            let mut codes: Vec<u32> = vec![a0, a0 ^ 0x20];
            for j in 0..21 {
                codes.push(a0.wrapping_add(1 << j));
                codes.push(a0.wrapping_sub(1 << j));
                codes.push(a0 ^ (1 << j));
            }
            for db in [-2i32, -1, 0, 1, 2, 16, -16, 128] {
                let band = (*b as i32 + db).rem_euclid(256) as u8;
                for cp in &codes {
                    if let Some(ch) = char::from_u32(*cp) {
                        cands.push((band, ch));
                    }
                }
            }
            cands.sort();
            cands.dedup();
            for d in cands {
                ev.evaluations += 1;
                match membership(c, d) {
                    Ok(()) => {
                        ev.nontrivial_hash(hash_u64s(&[c.base() as u64, d.0 as u64, d.1 as u64, 99]));
                        ev.class("membership/neighbourhood-of-recognised");
                    }
                    Err((sig, msg)) => {
                        if !vs.iter().any(|v: &Violation| v.signature == sig) {
                            vs.push(viol(sig, msg, c, &[d]));
                        }
                    }
                }
                // order against its origin
                if let Err((sig, msg)) = order_oracle(c, (*b, *a), d, (*b, *a)) {
                    if !vs.iter().any(|v: &Violation| v.signature == sig) {
                        vs.push(viol(sig, msg, c, &[(*b, *a), d, (*b, *a)]));
                    }
                }
            }
        }
    }
    // ---- bijection: recognised descriptors <-> positions ----
    for c in ALL_CONS {
        let t = c.table();
        let mut seen_pos = Vec::new();
        for (pos, b, a) in t {
            ev.eval();
            match wire_position(c, (*b, *a), 1 + (*pos % 64)) {
                Ok(Some(p)) => {
                    if p != *pos {
                        vs.push(viol(format!("c18:{}:position", c.name()), format!("{} {}{} is encoded at signal-mask position {} (standard: {})", c.name(), b, a, p, pos), c, &[(*b, *a)]));
                    }
                    if p < 2 || p > 32 || seen_pos.contains(&p) {
                        vs.push(viol(format!("c18:{}:not-injective", c.name()), format!("{}: position {} used twice or out of 2..32", c.name(), p), c, &[(*b, *a)]));
                    }
                    seen_pos.push(p);
                    ev.distinct_by_construction += 1;
                    ev.class("bijection/recognised-on-wire");
                }
                Ok(None) => vs.push(viol(format!("c18:{}:recognised-refused", c.name()), format!("{} {}{} is in the standard table but refused", c.name(), b, a), c, &[(*b, *a)])),
                Err((sig, msg)) => vs.push(viol(sig, msg, c, &[(*b, *a)])),
            }
        }
    }
    // ---- order on all pairs of Latin-1 attributes within one band (a few bands per constellation) ----
    {
        let pair_parts: Vec<(u64, Vec<Violation>)> = ALL_CONS
            .par_iter()
            .flat_map(|c| [0u8, 1, 2, 5, 255].into_par_iter().map(move |b| (*c, b)))
            .map(|(c, band)| {
                let mut n = 0u64;
                let mut vs = Vec::new();
                for a1 in 0..=255u32 {
                    let x = (band, char::from_u32(a1).unwrap());
                    for a2 in a1..=255u32 {
                        let y = (band, char::from_u32(a2).unwrap());
                        n += 1;
                        if let Err((sig, msg)) = order_oracle(c, x, y, x) {
                            if vs.is_empty() {
                                vs.push(viol(sig, msg, c, &[x, y, x]));
                            }
                        }
                    }
                }
                (n, vs)
            })
            .collect();
        for (n, v) in pair_parts {
            ev.evaluations += n;
            ev.distinct_by_construction += n;
            ev.class_n("order/all-latin1-attribute-pairs-within-a-band", n);
            for x in v {
                if !vs.iter().any(|y: &Violation| y.signature == x.signature) {
                    vs.push(x);
                }
            }
        }
    }
    // ---- order ----
    let order_parts: Vec<(Evidence, Vec<Violation>)> = ALL_CONS
        .par_iter()
        .map(|c| {
            let c = *c;
            let mut ev = Evidence::new();
            ev.sample_cap = 2;
            let mut vs = Vec::new();
            let t: Vec<(u8, char)> = c.table().iter().map(|e| (e.1, e.2)).collect();
            let mut go = |x: (u8, char), y: (u8, char), z: (u8, char), ev: &mut Evidence, vs: &mut Vec<Violation>, class: &str, by_construction: bool| {
                ev.evaluations += 1;
                match order_oracle(c, x, y, z) {
                    Ok(()) => {
                        if by_construction {
                            ev.distinct_by_construction += 1;
                        } else {
                            ev.nontrivial_hash(hash_u64s(&[c.base() as u64, x.0 as u64, x.1 as u64, y.0 as u64, y.1 as u64, z.0 as u64, z.1 as u64]));
                        }
                        if ev.evaluations % 64 == 0 {
                            ev.class(class);
                        }
                    }
                    Err((sig, msg)) => {
                        if vs.len() < 2 {
                            vs.push(viol(sig, msg, c, &[x, y, z]));
                        }
                    }
                }
            };
            for x in &t {
                for y in &t {
                    for z in &t {
                        go(*x, *y, *z, &mut ev, &mut vs, "order/recognised-triples(all)", true);
                    }
                }
            }
            // recognised x near-miss / unrecognised
            let mut rng = ctx.rng("c18-order", c.base() as u64);
            let others: Vec<(u8, char)> = (0..200).map(|_| sample_desc(&mut rng, c)).collect();
            for x in &t {
                for y in &others {
                    let z = others[rng.below(others.len() as u64) as usize];
                    go(*x, *y, z, &mut ev, &mut vs, "order/recognised-vs-other", false);
                    go(*y, *x, z, &mut ev, &mut vs, "order/recognised-vs-other", false);
                }
            }
            let n = ctx.n(3_000_000, 300_000_000) / 7;
            for _ in 0..n {
                let x = sample_desc(&mut rng, c);
                let y = sample_desc(&mut rng, c);
                let z = sample_desc(&mut rng, c);
                go(x, y, z, &mut ev, &mut vs, "order/random-triples", false);
            }
            ev.sample(json!({"constellation":c.name(),"recognised":t.len(),"example_triple":[format!("{}{}",t[0].0,t[0].1),format!("{}{}",t[t.len()-1].0,t[t.len()-1].1),"9q"]}));
            (ev, vs)
        })
        .collect();
    for (e, v) in order_parts {
        ev.merge(e);
        vs.extend(v);
    }
    // the whole table on the wire at once: an MSM frame whose signal mask has every recognised position of the
    // constellation set (1..3 satellites, all MSM levels) must decode to the table's descriptors in position order
    // (one-cell messages cannot see a decoder that handles only the first k signals of a mask)
    for cons in crate::msm::ALL_CONS {
        let ng = cons.table().len();
        for level in 1..=7u8 {
            for ns in 1..=(64 / ng).min(3) {
                let mut rng = ctx.rng("c18-full-table", (cons.base() as u64) * 100 + level as u64 * 10 + ns as u64);
                let spec = crate::msm::spec_with_shape(&mut rng, cons, level, ns, ng);
                ev.eval();
                match crate::checks::c10::oracle_spec(&spec, rng.next_u64()) {
                    Ok(_) => {
                        ev.distinct_by_construction += 1;
                        ev.class("wire/all-recognised-signals-in-one-mask");
                    }
                    Err((sig, msg)) => {
                        let sig = format!("c18:{}:full-table-on-the-wire({})", cons.name(), sig);
                        if !vs.iter().any(|v| v.signature == sig) {
                            vs.push(Violation { property: "C18".into(), signature: sig, message: format!("{} MSM{} with all {} recognised signals and {} satellite(s): {}", cons.name(), level, ng, ns, msg), case: crate::checks::c10::spec_json(&spec, 0) });
                        }
                    }
                }
            }
        }
    }
    ev.notes.push("order class counters are sampled (1 in 64)".into());
    ev.exhaustive = Some(true);
    ev.extra.insert("exhaustive_subdomain".into(), json!("membership over 7 x 256 bands x 256 Latin-1 attributes; all triples of recognised descriptors; other characters and mixed triples sampled"));
    vs.truncate(8);
    CheckResult { evidence: ev, rule, assumptions, violations: vs }
}

fn membership_only(c: Cons, d: (u8, char)) -> Result<(), (String, String)> {
    match catch(|| membership_only_inner(c, d)) {
        Ok(r) => r,
        Err(p) => Err((panic_signature(&p), format!("{} descriptor {:?}: is_valid / accessors panicked: {}", c.name(), d, p))),
    }
}
fn membership_only_inner(c: Cons, d: (u8, char)) -> Result<(), (String, String)> {
    let want = c.pos_of(d.0, d.1).is_some();
    if !accessors_ok(c, d.0, d.1) {
        return Err((format!("c18:{}:accessors", c.name()), format!("{:?}: band()/attribute() do not return what new() was given", d)));
    }
    if is_valid(c, d.0, d.1) != want {
        return Err((format!("c18:{}:is-valid", c.name()), format!("{} descriptor {:?}: is_valid() = {}, standard table says {}", c.name(), d, !want, want)));
    }
    Ok(())
}
fn membership(c: Cons, d: (u8, char)) -> Result<(), (String, String)> {
    membership_only(c, d)?;
    let want = c.pos_of(d.0, d.1);
    let got = wire_position(c, d, 5)?;
    if got != want {
        return Err((format!("c18:{}:wire-position", c.name()), format!("{} descriptor {:?}: encoder gives mask position {:?}, standard table {:?}", c.name(), d, got, want)));
    }
    Ok(())
}
