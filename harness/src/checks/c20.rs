//! C20 — serialising a message with serde and reading it back gives the same message.
use crate::bits::{hex, unhex};
use crate::infra::*;
use crate::msggen::{any_frame, corpus, decode_frame, recipe_strategy, run_recipe, value_to_message, OpClass, Recipe};
use crate::registry::{self, MSG_TABLE};
use crate::value::{from_value, to_value, Value};
use rayon::prelude::*;
use rtcm_rs::prelude::*;
use serde_json::{json, Value as J};

pub fn oracle(m: &Message) -> Result<&'static str, (String, String)> {
    let name = registry::variant_name(m);
    let r = catch(|| -> Result<&'static str, (String, String)> {
        let tree = to_value(m).map_err(|e| ("c20:serialize-error".to_string(), format!("{}: {}", name, e.0)))?;
        if tree.has_nan() {
            return Ok("skipped-nan");
        }
        let back: Message = from_value(&tree).map_err(|e| ("c20:deserialize-error".to_string(), format!("{}: the serialised form does not deserialise: {}", name, e.0)))?;
        if &back != m {
            // locate the first difference in the Debug renderings
            let da = format!("{:?}", m);
            let db = format!("{:?}", back);
            let pos = da.chars().zip(db.chars()).position(|(x, y)| x != y).unwrap_or(da.chars().count().min(db.chars().count()));
            let ex = |s: &str| s.chars().skip(pos.saturating_sub(60)).take(120).collect::<String>();
            let at = format!("char {}: ...{}... vs ...{}...", pos, ex(&da), ex(&db));
            return Err(("c20:round-trip-differs".into(), format!("{}: deserialize(serialize(m)) != m at {}", name, at)));
        }
        // second, independent self-describing model for finite values: serde_json's Value tree (no text involved)
        if tree.all_floats_finite() {
            let jv = serde_json::to_value(m).map_err(|e| ("c20:json-value-serialize-error".to_string(), format!("{}: {}", name, e)))?;
            let back2: Message = serde_json::from_value(jv).map_err(|e| ("c20:json-value-deserialize-error".to_string(), format!("{}: {}", name, e)))?;
            if &back2 != m {
                return Err(("c20:round-trip-differs(json-value)".into(), format!("{}: round trip through serde_json::Value differs", name)));
            }
            return Ok("ok+json-value");
        }
        Ok("ok")
    });
    match r {
        Ok(x) => x,
        Err(p) => Err((panic_signature(&p), format!("{}: panic: {}", name, p))),
    }
}

fn interesting(tree: &Value) -> (bool, bool, bool, bool) {
    let mut all = Vec::new();
    tree.walk(&mut Vec::new(), &mut all);
    let mut non_ascii = false;
    let mut has_none = false;
    let mut nondefault_float = false;
    let mut long_list = false;
    for (_, n) in all {
        match n {
            Value::Str(s) if !s.is_ascii() => non_ascii = true,
            Value::None => has_none = true,
            Value::F32(x) if *x != 0.0 => nondefault_float = true,
            Value::F64(x) if *x != 0.0 => nondefault_float = true,
            Value::Seq(v) if v.len() >= 15 => long_list = true,
            _ => {}
        }
    }
    (non_ascii, has_none, nondefault_float, long_list)
}

pub fn run(ctx: &Ctx, replay: Option<&J>) -> CheckResult {
    let rule = "all supported types plus Empty/Corrupt/MsgNotSupported: (1) proptest recipes (as C01/C09 but never injecting NaN; +-inf allowed): strings with high Latin-1 \
        and multi-byte characters around the capacities, lists filled to capacity, toggled options; (2) messages decoded from the decoder-side generators; (3) 1007/1008/1033/1029 built through the typed API (From<&str>) from text of every class incl. escape-, entity- and format-like tokens. oracle: \
        from_value(to_value(m)) == m (and, for base messages with a list reversed / rotated / swapped / with a repeated element, to_value(from_value(t)) == t) through the harness' own self-describing value model (exact for f32/f64/char/u64), and for finite messages additionally through \
        serde_json::Value (tree, no text). non-trivial = message with a non-ASCII string, a None, a non-zero float or a list of >=15 elements; distinct = hash of the value tree"
        .to_string();
    let assumptions = vec![
        "the value model implements the full serde data model; text formats are not involved (f32 text round trips are not exact and would be a false alarm)".to_string(),
        "messages containing NaN are outside the property (m != m) and skipped".to_string(),
    ];
    if let Some(c) = replay {
        let mut ev = Evidence::new();
        ev.eval();
        let mut vs = Vec::new();
        let m = if c["kind"] == "frame" {
            unhex(c["bytes"].as_str().unwrap_or("")).and_then(|f| decode_frame(&f))
        } else {
            c.get("value").and_then(Value::from_json).and_then(|t| value_to_message(&t).ok())
        };
        if c["kind"] == "message-value-exact" {
            if let (Some(t), Some(m)) = (c.get("value").and_then(Value::from_json), m.as_ref()) {
                if let Ok(t2) = to_value(m) {
                    if t2 != t {
                        vs.push(Violation { property: "C20".into(), signature: "c20:deserialize-changes-value".into(), message: format!("{}: deserialising a value and serialising the result gives a different value", registry::variant_name(m)), case: c.clone() });
                        return CheckResult { evidence: ev, rule, assumptions, violations: vs };
                    }
                }
            }
        }
        if let Some(m) = m {
            if let Err((sig, msg)) = oracle(&m) {
                vs.push(Violation { property: "C20".into(), signature: sig, message: msg, case: c.clone() });
            }
        }
        return CheckResult { evidence: ev, rule, assumptions, violations: vs };
    }
    let corp = corpus(ctx.seed);
    let cases = ctx.n(600_000, 15_000_000);
    let (mut ev, mut vs) = pt_run(
        ctx,
        "c20",
        cases,
        || recipe_strategy(8),
        |r: &Recipe, ev| {
            let b = run_recipe(corp, r, false);
            let m = match &b.message {
                Some(m) => m,
                None => return Ok(()),
            };
            let res = oracle(m);
            if let (Ok(c), Some(ev)) = (&res, ev) {
                ev.class(&format!("recipe/{}", c));
                let t = to_value(m).unwrap_or(Value::Unit);
                let (na, none, nf, ll) = interesting(&t);
                if na {
                    ev.class("has/non-ascii-string");
                }
                if ll {
                    ev.class("has/list>=15");
                }
                if na || none || nf || ll {
                    ev.nontrivial_hash(hash_str(&format!("{:?}", t)));
                    if na && ev.want_sample() {
                        ev.sample(json!({"number":b.number,"ops":b.classes.iter().filter(|c| **c != OpClass::Noop).map(|c| c.name()).collect::<Vec<_>>(),"tree_brief":t.brief(300)}));
                    }
                }
            }
            res.map(|_| ())
        },
        |r| {
            let b = run_recipe(corp, r, false);
            json!({"kind":"message-value","number":b.number,"ops":b.classes.iter().map(|c| c.name()).collect::<Vec<_>>(),"value":b.tree.to_json()})
        },
    );
    // string-bearing messages constructed through the typed API (From<&str>), not through the deserialiser: text of
    // every class incl. escape-/entity-/format-like tokens must survive serialise -> deserialise unchanged
    {
        use rtcm_rs::msg::{Msg1007T, Msg1008T, Msg1029T, Msg1033T};
        use rtcm_rs::util::{ArrayString, Df88591String};
        let n = ctx.n(60_000, 1_500_000);
        let (sev, svs) = par_shards(16, |shard| {
            let mut ev = Evidence::new();
            ev.sample_cap = 1;
            let mut vs: Vec<Violation> = Vec::new();
            let mut rng = ctx.rng("c20-typed-strings", shard as u64);
            for i in 0..n / 16 {
                let mut txt = |rng: &mut crate::rng::Rng| -> String {
                    if rng.below(2) == 0 {
                        let cap = [7usize, 31, 40, 255][rng.below(4) as usize];
                        crate::msggen::gen_token_text(rng, cap)
                    } else {
                        crate::msggen::gen_text(rng.next_u64())
                    }
                };
                let d = |s: &str| Df88591String::<31>::from(s);
                let m = match i % 4 {
                    0 => Message::Msg1007(Msg1007T { reference_station_id: 5, antenna_descriptor_str: d(&txt(&mut rng)), antenna_setup_id: 1 }),
                    1 => Message::Msg1008(Msg1008T { reference_station_id: 5, antenna_descriptor_str: d(&txt(&mut rng)), antenna_setup_id: 1, antenna_serial_number_str: d(&txt(&mut rng)) }),
                    2 => Message::Msg1033(Msg1033T {
                        reference_station_id: 9,
                        antenna_descriptor_str: d(&txt(&mut rng)),
                        antenna_setup_id: 0,
                        antenna_serial_number_str: d(&txt(&mut rng)),
                        receiver_type_descriptor_str: d(&txt(&mut rng)),
                        receiver_firmware_version_str: d(&txt(&mut rng)),
                        receiver_serial_number_str: d(&txt(&mut rng)),
                    }),
                    _ => Message::Msg1029(Msg1029T { reference_station_id: 1, modified_julian_day_number: 2, seconds_of_day_s: 3, text_str: ArrayString::<255>::from(txt(&mut rng).as_str()) }),
                };
                ev.evaluations += 1;
                match oracle(&m) {
                    Ok(_) => {
                        ev.nontrivial_hash(hash_str(&format!("{:?}", m)));
                        if i % 8 == 0 {
                            ev.class("typed-string-message");
                        }
                        if ev.want_sample() && i % 4 == 1 {
                            ev.sample(json!({"typed_string_message": format!("{:?}", m).chars().take(260).collect::<String>()}));
                        }
                    }
                    Err((sig, msg)) => {
                        if ctx.is_known(&sig) {
                            ev.excluded_known += 1;
                        } else if vs.is_empty() {
                            // the frame form is a faithful replay vehicle for these messages (descriptor bytes survive the wire)
                            let case = match crate::msggen::build(&m) {
                                Ok(f) => json!({"kind":"frame","bytes":hex(&f)}),
                                Err(_) => json!({"kind":"message-value","value":to_value(&m).map(|t| t.to_json()).unwrap_or(J::Null)}),
                            };
                            vs.push(Violation { property: "C20".into(), signature: sig, message: msg, case });
                        }
                    }
                }
            }
            (ev, vs)
        });
        ev.merge(sev);
        for x in svs {
            if !vs.iter().any(|y| y.signature == x.signature) {
                vs.push(x);
            }
        }
    }
    // list order and duplicates are part of the value: every list of every base message reversed, rotated by one, with its
    // first two elements swapped, and with its first element duplicated at the end (a deserializer that sorts, dedups or
    // validates rows changes the message)
    {
        let parts: Vec<(Evidence, Vec<Violation>)> = corp
            .types
            .par_iter()
            .map(|tc| {
                let mut ev = Evidence::new();
                ev.sample_cap = 0;
                let mut vs: Vec<Violation> = Vec::new();
                for base in &tc.bases {
                    let mut all = Vec::new();
                    base.walk(&mut Vec::new(), &mut all);
                    let seqs: Vec<crate::value::Path> = all.iter().filter(|(_, n)| matches!(n, Value::Seq(items) if items.len() >= 2)).map(|(p, _)| p.clone()).collect();
                    for path in seqs {
                        for variant in 0..4 {
                            let mut t = base.clone();
                            if let Some(Value::Seq(items)) = t.get_mut(&path) {
                                match variant {
                                    0 => items.reverse(),
                                    1 => items.rotate_left(1),
                                    2 => items.swap(0, 1),
                                    _ => {
                                        let e = items[0].clone();
                                        if let Some(last) = items.last_mut() {
                                            *last = e;
                                        }
                                    }
                                }
                            }
                            if &t == base {
                                continue;
                            }
                            let m = match crate::msggen::value_to_message(&t) {
                                Ok(m) => m,
                                Err(_) => continue,
                            };
                            ev.evaluations += 1;
                            // the message was constructed by deserialising t (elements unchanged, only their order): serialising
                            // it must give t back, otherwise the deserialiser itself reordered / dropped rows
                            let same_tree = match to_value(&m) {
                                Ok(t2) => t2 == t,
                                Err(_) => true,
                            };
                            let r = if same_tree { oracle(&m) } else { Err(("c20:deserialize-changes-value".to_string(), format!("{}: deserialising a value and serialising the result gives a different value", registry::variant_name(&m)))) };
                            match r {
                                Ok(_) => {
                                    ev.nontrivial_hash(hash_str(&format!("{}{:?}{}", tc.number, path, variant) ) ^ hash_str(&format!("{:?}", t).chars().take(400).collect::<String>()));
                                    ev.class("list-reordered-or-duplicated");
                                }
                                Err((sig, msg)) => {
                                    if ctx.is_known(&sig) {
                                        ev.excluded_known += 1;
                                    } else if vs.is_empty() {
                                        vs.push(Violation { property: "C20".into(), signature: sig, message: format!("list {} ({}): {}", crate::value::schema_key(&path), ["reversed", "rotated", "first two swapped", "first element repeated at the end"][variant], msg), case: json!({"kind":"message-value-exact","number":tc.number,"value":t.to_json()}) });
                                    }
                                }
                            }
                        }
                    }
                }
                (ev, vs)
            })
            .collect();
        for (e, v) in parts {
            ev.merge(e);
            for x in v {
                if !vs.iter().any(|y| y.signature == x.signature) {
                    vs.push(x);
                }
            }
        }
    }
    // wire-less variants
    for m in [Message::Empty, Message::Corrupt, Message::MsgNotSupported(rtcm_rs::msg::message::MsgNotSupportedT { message_number: 4095 })] {
        ev.eval();
        match oracle(&m) {
            Ok(_) => {
                ev.class("wireless-variant");
                ev.nontrivial_hash(hash_str(&format!("{:?}", m)));
            }
            Err((sig, msg)) => vs.push(Violation { property: "C20".into(), signature: sig, message: msg, case: json!({"kind":"message-value","value":to_value(&m).unwrap().to_json()}) }),
        }
    }
    // decoded frames
    let golden_all = crate::pool::golden_frames();
    let per_type = ctx.n(4000, 100_000);
    let parts: Vec<(Evidence, Vec<Violation>)> = MSG_TABLE
        .par_iter()
        .map(|row| {
            let mut ev = Evidence::new();
            ev.sample_cap = 0;
            let mut vs: Vec<Violation> = Vec::new();
            let golden: Vec<Vec<u8>> = golden_all.iter().filter(|(n, _)| n.starts_with(&format!("msg{}_", row.number))).map(|(_, f)| f.clone()).collect();
            let mut rng = ctx.rng("c20-frames", row.number as u64);
            for _ in 0..per_type {
                let (f, class, _) = any_frame(&mut rng, row.number, &golden);
                if let Some(m) = decode_frame(&f) {
                    if !crate::msggen::is_typed(&m) {
                        continue;
                    }
                    ev.evaluations += 1;
                    match oracle(&m) {
                        Ok(_) => {
                            ev.nontrivial_bytes(&f);
                            if ev.evaluations % 8 == 0 {
                                ev.class(&format!("decoded/{}", class));
                            }
                        }
                        Err((sig, msg)) => {
                            if ctx.is_known(&sig) {
                                ev.excluded_known += 1;
                            } else if vs.is_empty() {
                                vs.push(Violation { property: "C20".into(), signature: sig, message: msg, case: json!({"kind":"frame","bytes":hex(&f)}) });
                            }
                        }
                    }
                }
            }
            (ev, vs)
        })
        .collect();
    for (e, v) in parts {
        ev.merge(e);
        for x in v {
            if !vs.iter().any(|y| y.signature == x.signature) {
                vs.push(x);
            }
        }
    }
    vs.truncate(6);
    CheckResult { evidence: ev, rule, assumptions, violations: vs }
}
