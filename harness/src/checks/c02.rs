//! C02 — decoding is total: no panic and no hang on any byte input; decoded floats finite; m == m.
use crate::bits::{hex, unhex};
use crate::frame::frame;
use crate::infra::*;
use crate::msggen::{self, any_frame};
use crate::registry::{self, MSG_TABLE};
use crate::value::to_value;
use rayon::prelude::*;
use rtcm_rs::prelude::*;
use serde_json::{json, Value as J};

/// oracle on one CRC-valid frame; Ok(outcome class)
pub fn oracle_frame(f: &[u8]) -> Result<&'static str, (String, String)> {
    let r = catch(|| {
        let mf = match MessageFrame::new(f) {
            Ok(m) => m,
            Err(e) => return Err(("c02:harness".to_string(), format!("own frame rejected: {:?}", e))),
        };
        let number = mf.message_number();
        let m = mf.get_message();
        let name = registry::variant_name(&m);
        #[allow(clippy::eq_op)]
        if !(m == m) {
            return Err(("c02:not-equal-to-itself".into(), format!("decoded {} message does not compare equal to itself", name)));
        }
        let class = match name {
            "Empty" => {
                if mf.data_len() >= 2 {
                    return Err(("c02:empty-for-long-payload".into(), "Empty for payload >= 2 bytes".into()));
                }
                "empty"
            }
            "Corrupt" => "corrupt",
            "MsgNotSupported" => "unsupported",
            v => {
                let n = number.unwrap_or(0);
                if v != format!("Msg{}", n) {
                    return Err(("c02:wrong-variant".into(), format!("number {} decoded to {}", n, v)));
                }
                let tree = to_value(&m).map_err(|e| ("c02:harness".to_string(), e.0))?;
                if !tree.all_floats_finite() {
                    return Err((format!("c02:non-finite-float:{}", v), format!("decoded {} contains a non-finite floating-point field", v)));
                }
                "typed"
            }
        };
        Ok(class)
    });
    match r {
        Ok(x) => x,
        Err(p) => Err((panic_signature(&p), format!("decoding panicked: {}", p))),
    }
}

/// oracle on a raw byte stream through the iterator
pub fn oracle_stream(buf: &[u8]) -> Result<usize, (String, String)> {
    let r = catch(|| {
        let mut it = MsgFrameIter::new(buf);
        let mut n = 0usize;
        let mut steps = 0usize;
        for mf in &mut it {
            steps += 1;
            if steps > buf.len() + 1 {
                return Err(("c02:iterator-runs-on".to_string(), "iterator yielded more frames than bytes".to_string()));
            }
            let m = mf.get_message();
            #[allow(clippy::eq_op)]
            if !(m == m) {
                return Err(("c02:not-equal-to-itself".into(), "decoded message != itself".into()));
            }
            if msggen::is_typed(&m) {
                let tree = to_value(&m).map_err(|e| ("c02:harness".to_string(), e.0))?;
                if !tree.all_floats_finite() {
                    return Err(("c02:non-finite-float".into(), "non-finite float in decoded message".into()));
                }
            }
            n += 1;
        }
        if it.consumed() > buf.len() {
            return Err(("c02:consumed-exceeds-len".into(), "consumed > len".into()));
        }
        Ok(n)
    });
    match r {
        Ok(x) => x,
        Err(p) => Err((panic_signature(&p), format!("scanning/decoding panicked: {}", p))),
    }
}

pub fn run(ctx: &Ctx, replay: Option<&J>) -> CheckResult {
    let rule = "for every supported message number (table scanned from /repo) and sampled unsupported numbers: CRC-valid frames from \
        {golden vectors, the crate's own generator (incl. its capacity/invalid branches), a structure-aware synthesiser (MSM valid and >64 mask cells, \
        1059/1065 lists up to and beyond capacity, 1029 valid/invalid UTF-8, count fields at 0/mid/cap/cap+1/max, density payloads of every length class), \
        havoc mutations of all of these}; plus raw multi-frame/garbage byte streams through MsgFrameIter and four stress streams (1 MiB of 0xD3, 200-400 k false preambles) scanned in a child process (a process abort is a violation). oracle (inside catch_unwind): no panic, outcome in \
        {typed variant of that number, Corrupt, Empty, MsgNotSupported}, m==m, every float leaf finite, iterator terminates. run in both build profiles \
        (optimised; optimised+overflow-checks). non-trivial = typed decode, or CRC-valid frame of a supported number with a hostile feature; distinct = hash of frame"
        .to_string();
    let assumptions = vec![
        "frames are framed by the harness (own CRC) so the decoder is reached with hostile bodies".to_string(),
        "the crate's generator is only a seed source; its own failures are skipped, never reported".to_string(),
    ];
    if let Some(c) = replay {
        let mut ev = Evidence::new();
        ev.eval();
        let mut vs = Vec::new();
        let mut bytes = unhex(c["bytes"].as_str().unwrap_or("")).unwrap_or_default();
        if c["kind"] == "stress" {
            let unit = unhex(&c["pattern"].as_str().unwrap_or("d3").replace(' ', "")).unwrap_or_else(|| vec![0xD3]);
            let n = c["count"].as_u64().unwrap_or(1) as usize;
            bytes = Vec::with_capacity(unit.len() * n + 64);
            for _ in 0..n {
                bytes.extend_from_slice(&unit);
            }
            // a real frame at the end so that the scan has something to find
            bytes.extend(crate::frame::frame(&[0x3E, 0xD0, 0x00, 0x01]));
        }
        let r = if c["kind"] == "stream" || c["kind"] == "stress" { oracle_stream(&bytes).map(|_| "stream") } else { oracle_frame(&bytes) };
        if let Err((sig, msg)) = r {
            vs.push(Violation { property: "C02".into(), signature: sig, message: msg, case: c.clone() });
        }
        return CheckResult { evidence: ev, rule, assumptions, violations: vs };
    }
    let golden_all = crate::pool::golden_frames();
    let per_type = ctx.n(25_000, 2_000_000);
    // supported numbers + some unsupported ones
    let mut numbers: Vec<u16> = MSG_TABLE.iter().map(|r| r.number).collect();
    numbers.extend([0u16, 1, 1000, 1018, 1028, 1036, 1070, 1078, 1138, 1229, 1231, 1305, 4095]);
    let parts: Vec<(Evidence, Vec<Violation>)> = numbers
        .par_iter()
        .map(|&number| {
            let mut ev = Evidence::new();
            ev.sample_cap = 1;
            let mut vs: Vec<Violation> = Vec::new();
            let golden: Vec<Vec<u8>> = golden_all.iter().filter(|(n, _)| n.starts_with(&format!("msg{}_", number))).map(|(_, f)| f.clone()).collect();
            let mut rng = ctx.rng("c02", number as u64);
            let supported = registry::is_supported(number);
            let n = if supported { per_type } else { per_type / 10 };
            for i in 0..n {
                let (f, class, hostile) = any_frame(&mut rng, number, &golden);
                ev.evaluations += 1;
                match oracle_frame(&f) {
                    Ok(outcome) => {
                        if supported && (outcome == "typed" || hostile) {
                            ev.nontrivial_bytes(&f);
                        }
                        if i % 16 == 0 {
                            ev.class(&format!("gen/{}", class));
                            ev.class(&format!("outcome/{}", outcome));
                        }
                        if outcome == "typed" && hostile && ev.want_sample() {
                            ev.sample(json!({"number":number,"generator":class,"outcome":outcome,"frame_len":f.len(),"frame_prefix":hex(&f[..f.len().min(24)])}));
                        }
                    }
                    Err((sig, msg)) => {
                        if ctx.is_known(&sig) {
                            ev.excluded_known += 1;
                        } else if !vs.iter().any(|v: &Violation| v.signature == sig) && vs.len() < 3 {
                            // keep the shortest reproduction we see for this signature
                            vs.push(Violation { property: "C02".into(), signature: sig, message: format!("[{} / {}] {}", number, class, msg), case: json!({"kind":"frame","bytes":hex(&f),"generator":class}) });
                        } else if let Some(v) = vs.iter_mut().find(|v| v.signature == sig) {
                            if f.len() * 2 < v.case["bytes"].as_str().map(|s| s.len()).unwrap_or(0) {
                                v.case = json!({"kind":"frame","bytes":hex(&f),"generator":class});
                            }
                        }
                    }
                }
            }
            (ev, vs)
        })
        .collect();
    let mut ev = Evidence::new();
    let mut vs: Vec<Violation> = Vec::new();
    for (e, v) in parts {
        ev.merge(e);
        for x in v {
            if !vs.iter().any(|y| y.signature == x.signature) {
                vs.push(x);
            }
        }
    }
    ev.notes.push("generator/outcome class counters are sampled (1 in 16 evaluations)".into());
    // raw streams
    let nstreams = ctx.n(200_000, 20_000_000);
    let supported: Vec<u16> = MSG_TABLE.iter().map(|r| r.number).collect();
    let (sev, svs) = par_shards(32, |shard| {
        let mut ev = Evidence::new();
        ev.sample_cap = 1;
        let mut vs = Vec::new();
        let mut rng = ctx.rng("c02-stream", shard as u64);
        for _ in 0..nstreams / 32 {
            let mut buf: Vec<u8> = Vec::new();
            let nseg = 1 + rng.below(5);
            let mut kinds = Vec::new();
            for _ in 0..nseg {
                match rng.below(6) {
                    0 => {
                        buf.extend(rng.bytes_len(0, 40));
                        kinds.push("garbage");
                    }
                    1 => {
                        buf.push(0xD3);
                        kinds.push("lone-d3");
                    }
                    2 => {
                        let l = rng.below(40) as usize;
                        buf.extend(crate::pool::random_frame(&mut rng, l, true));
                        kinds.push("random-frame");
                    }
                    3 => {
                        let n = supported[rng.below(supported.len() as u64) as usize];
                        let (f, _, _) = any_frame(&mut rng, n, &[]);
                        let k = rng.below(f.len() as u64) as usize;
                        buf.extend_from_slice(&f[..k]);
                        kinds.push("truncated-frame");
                    }
                    _ => {
                        let n = supported[rng.below(supported.len() as u64) as usize];
                        let (f, _, _) = any_frame(&mut rng, n, &[]);
                        buf.extend(f);
                        kinds.push("frame");
                    }
                }
            }
            ev.evaluations += 1;
            match oracle_stream(&buf) {
                Ok(nf) => {
                    ev.class(&format!("stream/frames-{}", nf.min(4)));
                    if nf >= 1 && kinds.len() >= 2 {
                        ev.nontrivial_bytes(&buf);
                        if ev.want_sample() {
                            ev.sample(json!({"stream_len":buf.len(),"segments":kinds,"frames_decoded":nf}));
                        }
                    }
                }
                Err((sig, msg)) => {
                    if ctx.is_known(&sig) {
                        ev.excluded_known += 1;
                    } else if vs.is_empty() {
                        vs.push(Violation { property: "C02".into(), signature: sig, message: msg, case: json!({"kind":"stream","bytes":hex(&buf)}) });
                    }
                }
            }
        }
        (ev, vs)
    });
    ev.merge(sev);
    for x in svs {
        if !vs.iter().any(|y| y.signature == x.signature) {
            vs.push(x);
        }
    }
    // stress streams that a defective scanner might not survive at all (deep recursion, quadratic blow-up): each runs in a
    // child process so that an abort / stack overflow is observed as a violation instead of killing the check
    if std::env::var("VERIF_CHILD").is_err() {
        let stress: Vec<(&str, J)> = vec![
            ("d3-run-1MiB", json!({"kind":"stress","pattern":"d3","count":1_048_576})),
            ("false-preambles-6B-x400k", json!({"kind":"stress","pattern":"d3 00 00 00 00 00","count":400_000})),
            ("false-preambles-7B-x300k", json!({"kind":"stress","pattern":"d3 00 01 55 00 00 00","count":300_000})),
            ("d3-then-frames", json!({"kind":"stress","pattern":"d3 d3 00","count":200_000})),
        ];
        for (tag, case) in stress {
            ev.evaluations += 1;
            match run_case_in_child(ctx, &case, tag) {
                ChildOutcome::Ok => {
                    ev.class("stress-stream-in-child-process/ok");
                    ev.nontrivial_hash(hash_str(tag));
                }
                ChildOutcome::Violation(m) => vs.push(Violation { property: "C02".into(), signature: format!("c02:stress:{}", tag), message: m, case }),
                ChildOutcome::Died(m) => vs.push(Violation {
                    property: "C02".into(),
                    signature: "c02:process-died-while-scanning".into(),
                    message: format!("scanning the stress stream '{}' killed the process: {}", tag, m),
                    case,
                }),
            }
        }
    }
    // every payload length 0..=1023 for a few numbers (length coverage)
    let mut rng = ctx.rng("c02-len", 0);
    for l in 0..=1023usize {
        for &n in &[1005u16, 1077, 1059, 1029, 1057] {
            let mut p = rng.bytes(l);
            if l >= 2 {
                crate::bits::set_bits(&mut p, 0, 12, n as u64);
            }
            let f = frame(&p);
            ev.evaluations += 1;
            match oracle_frame(&f) {
                Ok(_) => ev.class("every-length-sweep"),
                Err((sig, msg)) => {
                    if ctx.is_known(&sig) {
                        ev.excluded_known += 1;
                    } else if !vs.iter().any(|y| y.signature == sig) {
                        vs.push(Violation { property: "C02".into(), signature: sig, message: msg, case: json!({"kind":"frame","bytes":hex(&f),"generator":"length-sweep"}) });
                    }
                }
            }
        }
    }
    vs.truncate(8);
    CheckResult { evidence: ev, rule, assumptions, violations: vs }
}
