//! C07 — bit-field packing is exact (hook: Assembler / Parser / bit_value).
use crate::bits::{get_bits, hex, set_bits, unhex};
use crate::infra::*;
use rayon::prelude::*;
use rtcm_rs::prelude::RtcmError;
use rtcm_rs::verif_hook::bit_value::{self as bv, BitValue};
use rtcm_rs::verif_hook::{Assembler, Parser};
use serde_json::{json, Value as J};

#[derive(Clone, Copy, Debug, PartialEq)]
pub enum Kind {
    U,
    I,
    SM,
}
impl Kind {
    fn name(self) -> &'static str {
        match self {
            Kind::U => "unsigned",
            Kind::I => "twos-complement",
            Kind::SM => "sign-magnitude",
        }
    }
}

pub trait Car {
    type IT: BitValue<ValueType = Self::P>;
    type P: Copy + std::fmt::Debug + PartialEq;
    const BITS: usize;
    const KIND: Kind;
    const NAME: &'static str;
    fn from_i128(v: i128) -> Self::P;
    fn to_i128(p: Self::P) -> i128;
}
macro_rules! car {
    ($name:ident, $it:ident, $p:ty, $kind:expr) => {
        pub struct $name;
        impl Car for $name {
            type IT = bv::$it;
            type P = $p;
            const BITS: usize = <$p>::BITS as usize;
            const KIND: Kind = $kind;
            const NAME: &'static str = stringify!($it);
            fn from_i128(v: i128) -> $p {
                v as $p
            }
            fn to_i128(p: $p) -> i128 {
                p as i128
            }
        }
    };
}
car!(CU8, U8, u8, Kind::U);
car!(CU16, U16, u16, Kind::U);
car!(CU32, U32, u32, Kind::U);
car!(CU64, U64, u64, Kind::U);
car!(CI8, I8, i8, Kind::I);
car!(CI16, I16, i16, Kind::I);
car!(CI32, I32, i32, Kind::I);
car!(CI64, I64, i64, Kind::I);
car!(CSM8, SM8, i8, Kind::SM);
car!(CSM16, SM16, i16, Kind::SM);
car!(CSM32, SM32, i32, Kind::SM);
car!(CSM64, SM64, i64, Kind::SM);

pub const CARRIERS: &[&str] = &["U8", "U16", "U32", "U64", "I8", "I16", "I32", "I64", "SM8", "SM16", "SM32", "SM64"];

/// reference: is v representable as a w-bit field of this kind, and its bit pattern
fn ref_pattern(kind: Kind, w: usize, v: i128) -> Option<u64> {
    let mask: u128 = if w >= 128 { u128::MAX } else { (1u128 << w) - 1 };
    match kind {
        Kind::U => {
            if v >= 0 && (v as u128) <= mask {
                Some(v as u64)
            } else {
                None
            }
        }
        Kind::I => {
            let lo = -(1i128 << (w - 1));
            let hi = (1i128 << (w - 1)) - 1;
            if v >= lo && v <= hi {
                Some(((v as u128) & mask) as u64)
            } else {
                None
            }
        }
        Kind::SM => {
            if w < 2 {
                return None;
            }
            let m = (1i128 << (w - 1)) - 1;
            if v.abs() <= m {
                Some(if v < 0 { (1u64 << (w - 1)) | ((-v) as u64) } else { v as u64 })
            } else {
                None
            }
        }
    }
}
/// reference decode of a pattern
fn ref_value(kind: Kind, w: usize, p: u64) -> i128 {
    match kind {
        Kind::U => p as i128,
        Kind::I => {
            if w < 64 && (p >> (w - 1)) & 1 == 1 {
                (p as i128) - (1i128 << w)
            } else if w == 64 {
                (p as i64) as i128
            } else {
                p as i128
            }
        }
        Kind::SM => {
            let mag = (p & ((1u64 << (w - 1)) - 1)) as i128;
            if (p >> (w - 1)) & 1 == 1 {
                -mag
            } else {
                mag
            }
        }
    }
}

fn err_is_overflow(e: &RtcmError) -> bool {
    matches!(e, RtcmError::BufferOverflow)
}

/// one case; v is interpreted through the carrier's primitive type (wrapping cast)
pub fn case<C: Car>(bg: &[u8], off: usize, w: usize, v: i128) -> Result<&'static str, (String, String)> {
    let val = C::from_i128(v);
    let v = C::to_i128(val);
    let fits = off + w <= bg.len() * 8;
    let mut buf = bg.to_vec();
    let (r, off2) = {
        let mut asm = Assembler::new(&mut buf, off);
        let r = asm.put::<C::IT>(val, w);
        (r, asm.offset())
    };
    if !fits {
        match r {
            Err(ref e) if err_is_overflow(e) => {}
            Err(e) => return Err(("c07:overrun-wrong-error".into(), format!("write past the end reported {:?}", e))),
            Ok(()) => return Err(("c07:overrun-write-accepted".into(), "write past the end of the buffer succeeded".into())),
        }
        if buf != bg {
            return Err(("c07:overrun-write-changed-buffer".into(), "failed write changed the buffer".into()));
        }
        if off2 != off {
            return Err(("c07:overrun-write-moved-cursor".into(), format!("failed write moved the cursor {} -> {}", off, off2)));
        }
        let mut par = Parser::new(bg, off);
        match par.parse::<C::IT>(w) {
            Err(ref e) if err_is_overflow(e) => {}
            Err(e) => return Err(("c07:overrun-wrong-error".into(), format!("read past the end reported {:?}", e))),
            Ok(_) => return Err(("c07:overrun-read-accepted".into(), "read past the end of the buffer succeeded".into())),
        }
        if par.offset() != off {
            return Err(("c07:overrun-read-moved-cursor".into(), format!("failed read moved the cursor {} -> {}", off, par.offset())));
        }
        return Ok("overrun");
    }
    if let Err(e) = r {
        return Err(("c07:write-rejected".into(), format!("in-bounds write reported {:?}", e)));
    }
    if off2 != off + w {
        return Err(("c07:write-cursor".into(), format!("cursor after write is {} (expected {})", off2, off + w)));
    }
    // reading arbitrary background bits: MSB first, two's complement / sign-magnitude
    {
        let p = get_bits(bg, off, w).unwrap();
        let mut par = Parser::new(bg, off);
        match par.parse::<C::IT>(w) {
            Ok(got) => {
                let want = ref_value(C::KIND, w, p);
                if C::to_i128(got) != want {
                    return Err(("c07:read-value".into(), format!("reading pattern {:#x} ({} bits, {}) returned {:?}, reference {}", p, w, C::KIND.name(), got, want)));
                }
                if par.offset() != off + w {
                    return Err(("c07:read-cursor".into(), format!("cursor after read is {} (expected {})", par.offset(), off + w)));
                }
            }
            Err(e) => return Err(("c07:read-rejected".into(), format!("in-bounds read reported {:?}", e))),
        }
    }
    match ref_pattern(C::KIND, w, v) {
        Some(p) => {
            let mut expect = bg.to_vec();
            set_bits(&mut expect, off, w, p);
            if buf != expect {
                let field_ok = get_bits(&buf, off, w) == Some(p);
                return Err((
                    if field_ok { "c07:write-touched-other-bits".to_string() } else { "c07:write-wrong-bits".to_string() },
                    format!("writing {} as {} bits ({}) at offset {}: buffer {} expected {}", v, w, C::KIND.name(), off, hex(&buf), hex(&expect)),
                ));
            }
            let mut par = Parser::new(&buf, off);
            match par.parse::<C::IT>(w) {
                Ok(got) if C::to_i128(got) == v && par.offset() == off + w => Ok("representable"),
                Ok(got) => Err(("c07:read-back".into(), format!("wrote {} read back {:?} (cursor {})", v, got, par.offset()))),
                Err(e) => Err(("c07:read-rejected".into(), format!("{:?}", e))),
            }
        }
        None => {
            // not representable: only "no other bit touched"
            let mut a = buf.clone();
            let mut b = bg.to_vec();
            set_bits(&mut a, off, w, 0);
            set_bits(&mut b, off, w, 0);
            if a != b {
                return Err(("c07:write-touched-other-bits".into(), format!("writing non-representable {} as {} bits at {} changed bits outside the field", v, w, off)));
            }
            Ok("non-representable")
        }
    }
}

pub fn case_dyn(carrier: &str, bg: &[u8], off: usize, w: usize, v: i128) -> Result<&'static str, (String, String)> {
    match carrier {
        "U8" => case::<CU8>(bg, off, w, v),
        "U16" => case::<CU16>(bg, off, w, v),
        "U32" => case::<CU32>(bg, off, w, v),
        "U64" => case::<CU64>(bg, off, w, v),
        "I8" => case::<CI8>(bg, off, w, v),
        "I16" => case::<CI16>(bg, off, w, v),
        "I32" => case::<CI32>(bg, off, w, v),
        "I64" => case::<CI64>(bg, off, w, v),
        "SM8" => case::<CSM8>(bg, off, w, v),
        "SM16" => case::<CSM16>(bg, off, w, v),
        "SM32" => case::<CSM32>(bg, off, w, v),
        "SM64" => case::<CSM64>(bg, off, w, v),
        _ => Ok("unknown-carrier"),
    }
}
fn carrier_bits(c: &str) -> usize {
    c.trim_start_matches(|ch: char| ch.is_alphabetic()).parse().unwrap()
}
fn carrier_kind(c: &str) -> Kind {
    if c.starts_with("SM") {
        Kind::SM
    } else if c.starts_with('I') {
        Kind::I
    } else {
        Kind::U
    }
}

fn values_for(kind: Kind, bits: usize, w: usize, exhaustive_upto: usize, rng: &mut crate::rng::Rng) -> Vec<i128> {
    let mut vs: Vec<i128> = Vec::new();
    let (lo, hi): (i128, i128) = match kind {
        Kind::U => (0, (1i128 << w) - 1),
        Kind::I => (-(1i128 << (w - 1)), (1i128 << (w - 1)) - 1),
        Kind::SM => (-((1i128 << (w - 1)) - 1), (1i128 << (w - 1)) - 1),
    };
    if w <= exhaustive_upto {
        let mut v = lo;
        while v <= hi {
            vs.push(v);
            v += 1;
        }
    } else {
        vs.extend([lo, lo + 1, -1, 0, 1, hi - 1, hi]);
        for b in 0..w {
            let one_hot = 1i128 << b;
            vs.push(one_hot);
            vs.push(hi - one_hot.min(hi)); // one-cold-ish
            if kind != Kind::U {
                vs.push(-one_hot);
            }
        }
        for _ in 0..64 {
            let span = (hi - lo + 1) as u128;
            let r = ((rng.next_u64() as u128) << 64 | rng.next_u64() as u128) % span;
            vs.push(lo + r as i128);
        }
        vs.retain(|v| *v >= lo && *v <= hi);
        if kind == Kind::U {
            vs.retain(|v| *v >= 0);
        }
    }
    // non-representable values (high garbage bits), interpreted through the carrier type
    let cmax: i128 = match kind {
        Kind::U => {
            if bits == 64 {
                u64::MAX as i128
            } else {
                (1i128 << bits) - 1
            }
        }
        _ => (1i128 << (bits - 1)) - 1,
    };
    let cmin: i128 = if kind == Kind::U { 0 } else { -(1i128 << (bits - 1)) };
    if w < bits {
        vs.extend([cmax, cmin, hi + 1, cmax - 1]);
        if kind != Kind::U {
            vs.push(lo - 1);
        }
        for _ in 0..4 {
            let r = rng.next_u64() as i128;
            vs.push(if kind == Kind::U { r & cmax } else { (r % (cmax + 1)).max(cmin) });
        }
    } else if kind == Kind::SM {
        vs.push(cmin);
    }
    vs.sort();
    vs.dedup();
    vs
}

/// one step of a put/parse sequence on a single Assembler / Parser: (carrier index, width selector, value bits)
pub type SeqOp = (u8, u8, u64);

fn op_params(op: &SeqOp) -> (&'static str, usize, i128) {
    let c = CARRIERS[(op.0 as usize) % CARRIERS.len()];
    let bits = carrier_bits(c);
    let kind = carrier_kind(c);
    let w0 = if kind == Kind::SM { 2 } else { 1 };
    let w = w0 + (op.1 as usize) % (bits - w0 + 1);
    // a representable value derived from the value bits
    let v: i128 = match kind {
        Kind::U => (op.2 as u128 & ((1u128 << w) - 1)) as i128,
        Kind::I => {
            let m = (op.2 as u128 & ((1u128 << w) - 1)) as i128;
            if m >= (1i128 << (w - 1)) { m - (1i128 << w) } else { m }
        }
        Kind::SM => {
            let mag = (op.2 as u128 & ((1u128 << (w - 1)) - 1)) as i128;
            if (op.2 >> 63) & 1 == 1 { -mag } else { mag }
        }
    };
    (c, w, v)
}

macro_rules! with_carrier {
    ($name:expr, $C:ident, $body:block) => {
        match $name {
            "U8" => { type $C = CU8; $body }
            "U16" => { type $C = CU16; $body }
            "U32" => { type $C = CU32; $body }
            "U64" => { type $C = CU64; $body }
            "I8" => { type $C = CI8; $body }
            "I16" => { type $C = CI16; $body }
            "I32" => { type $C = CI32; $body }
            "I64" => { type $C = CI64; $body }
            "SM8" => { type $C = CSM8; $body }
            "SM16" => { type $C = CSM16; $body }
            "SM32" => { type $C = CSM32; $body }
            _ => { type $C = CSM64; $body }
        }
    };
}

/// a sequence of writes on ONE Assembler (some of them overrunning), then a sequence of reads on ONE Parser: after every
/// step buffer and cursor must equal the reference; a refused step changes nothing and later steps are still exact
pub fn oracle_sequence(bg: &[u8], start: usize, ops: &[SeqOp]) -> Result<(usize, usize), (String, String)> {
    let mut buf = bg.to_vec();
    let mut expect = bg.to_vec();
    let mut off = start.min(bg.len() * 8);
    let mut refused = 0usize;
    let mut accepted_after_refusal = 0usize;
    let total = bg.len() * 8;
    {
        // the buffer can only be inspected while no Assembler borrows it, so the comparison happens at the end of the write
        // phase; the cursor is compared after every step
        let mut asm = Assembler::new(&mut buf, off);
        for (i, op) in ops.iter().enumerate() {
            let (c, w, v) = op_params(op);
            let fits = off + w <= total;
            let r = with_carrier!(c, C, { asm.put::<<C as Car>::IT>(<C as Car>::from_i128(v), w) });
            match (fits, r) {
                (true, Ok(())) => {
                    let p = ref_pattern(carrier_kind(c), w, v).unwrap_or(0);
                    set_bits(&mut expect, off, w, p);
                    off += w;
                    if refused > 0 {
                        accepted_after_refusal += 1;
                    }
                }
                (false, Err(ref e)) if err_is_overflow(e) => refused += 1,
                (true, Err(e)) => return Err(("c07:seq-write-rejected".into(), format!("step {}: in-bounds write ({} bits at {}) reported {:?}", i, w, off, e))),
                (false, Ok(())) => return Err(("c07:seq-overrun-accepted".into(), format!("step {}: write of {} bits at {} past a {}-bit buffer succeeded", i, w, off, total))),
                (false, Err(e)) => return Err(("c07:seq-overrun-wrong-error".into(), format!("step {}: {:?}", i, e))),
            }
            if asm.offset() != off {
                return Err(("c07:seq-cursor".into(), format!("step {}: cursor is {} after the step, reference {}", i, asm.offset(), off)));
            }
        }
    }
    if buf != expect {
        let pos = buf.iter().zip(expect.iter()).position(|(a, b)| a != b).unwrap_or(0);
        return Err((
            "c07:seq-buffer".into(),
            format!("after {} writes on one Assembler ({} refused, {} accepted after a refusal): buffer {} expected {} (first difference at byte {})", ops.len(), refused, accepted_after_refusal, hex(&buf), hex(&expect), pos),
        ));
    }
    // read phase on one Parser over the written buffer
    let mut par = Parser::new(&buf, start.min(total));
    let mut roff = start.min(total);
    for (i, op) in ops.iter().enumerate() {
        let (c, w, _) = op_params(op);
        // one step in five moves the cursor with consume_bits (the other public way to advance it), staying inside the buffer
        if op.2 % 5 == 4 {
            let k = (op.1 as usize) % 9;
            if roff + k <= total {
                par.consume_bits(k);
                roff += k;
                if par.offset() != roff {
                    return Err(("c07:seq-consume-cursor".into(), format!("read step {}: consume_bits({}) left the cursor at {}, reference {}", i, k, par.offset(), roff)));
                }
            }
            continue;
        }
        let fits = roff + w <= total;
        let kind = carrier_kind(c);
        let want = if fits { Some(ref_value(kind, w, get_bits(&buf, roff, w).unwrap())) } else { None };
        let got: Result<i128, String> = with_carrier!(c, C, { par.parse::<<C as Car>::IT>(w).map(|x| <C as Car>::to_i128(x)).map_err(|e| format!("{:?}", e)) });
        match (want, got) {
            (Some(wv), Ok(g)) => {
                if g != wv {
                    return Err(("c07:seq-read-value".into(), format!("read step {}: {} bits at {} returned {}, reference {}", i, w, roff, g, wv)));
                }
                roff += w;
            }
            (None, Err(e)) if e == "BufferOverflow" => {}
            (Some(_), Err(e)) => return Err(("c07:seq-read-rejected".into(), format!("read step {}: in-bounds read reported {}", i, e))),
            (None, Ok(_)) => return Err(("c07:seq-overrun-read-accepted".into(), format!("read step {}: read of {} bits at {} past a {}-bit buffer succeeded", i, w, roff, total))),
            (None, Err(e)) => return Err(("c07:seq-overrun-wrong-error".into(), format!("read step {}: {}", i, e))),
        }
        if par.offset() != roff {
            return Err(("c07:seq-read-cursor".into(), format!("read step {}: cursor is {}, reference {}", i, par.offset(), roff)));
        }
    }
    Ok((refused, accepted_after_refusal))
}

pub fn run(ctx: &Ctx, replay: Option<&J>) -> CheckResult {
    let rule = "carriers {U,I,SM} x {8,16,32,64} x width 1..=carrier (SM from 2) x bit offset 0..=71 (quick: all alignments 0..=7 plus sampled \
        larger offsets; both tiers: 16 offsets deep in a 1023-byte body around 128/256/512/1024/4096 and at its very end) x background {00,FF,random} x values {all for width<=12 (thorough 16), else min/max/-1/0/1, one-hot, one-cold, 64 random, plus \
        non-representable values with high garbage bits} and every (offset,width) that overruns buffers of 1..=3 bytes around the field; oracle: reference \
        bit writer/reader (exact buffer image, cursor, read-back, reference decode of background bits, overflow => error and nothing changed); plus proptest sequences of up to 13 writes on ONE Assembler and reads on ONE Parser (overrunning steps included): cursor after every step and the final buffer equal the reference, steps after a refused one are still exact. \
        non-trivial = every case; distinct = (carrier,width,offset,background,value)"
        .to_string();
    let assumptions = vec![
        "Assembler/Parser/bit_value reached through the cfg(rtcm_rs_verif) re-export; no behaviour changed by the hook".to_string(),
        "sign-magnitude negative zero is not produced by any representable value and is excluded from the write oracle".to_string(),
    ];
    if let Some(c) = replay {
        if c["kind"] == "bit-sequence" {
            let bg = unhex(c["background"].as_str().unwrap_or("")).unwrap_or_default();
            let start = c["start"].as_u64().unwrap_or(0) as usize;
            let ops: Vec<SeqOp> = c["ops"].as_array().map(|a| a.iter().filter_map(|o| Some((o[0].as_u64()? as u8, o[1].as_u64()? as u8, o[2].as_str()?.parse::<u64>().ok()?))).collect()).unwrap_or_default();
            let mut ev = Evidence::new();
            ev.eval();
            let mut vs = Vec::new();
            let r = catch(|| oracle_sequence(&bg, start, &ops));
            let r = match r {
                Ok(r) => r,
                Err(p) => Err((panic_signature(&p), format!("panic: {}", p))),
            };
            if let Err((sig, msg)) = r {
                vs.push(Violation { property: "C07".into(), signature: sig, message: msg, case: c.clone() });
            }
            return CheckResult { evidence: ev, rule, assumptions, violations: vs };
        }
        let carrier = c["carrier"].as_str().unwrap_or("U8").to_string();
        let bg = unhex(c["background"].as_str().unwrap_or("")).unwrap_or_default();
        let off = c["offset"].as_u64().unwrap_or(0) as usize;
        let w = c["width"].as_u64().unwrap_or(1) as usize;
        let v: i128 = c["value"].as_str().and_then(|s| s.parse().ok()).unwrap_or(0);
        let mut ev = Evidence::new();
        ev.eval();
        let mut vs = Vec::new();
        let r = catch(|| case_dyn(&carrier, &bg, off, w, v));
        let r = match r {
            Ok(r) => r,
            Err(p) => Err((panic_signature(&p), format!("panic: {}", p))),
        };
        if let Err((sig, msg)) = r {
            vs.push(Violation { property: "C07".into(), signature: sig, message: msg, case: c.clone() });
        }
        return CheckResult { evidence: ev, rule, assumptions, violations: vs };
    }
    let exhaustive_upto = ctx.tier.pick(12usize, 16usize);
    let thorough = ctx.tier == Tier::Thorough;
    // jobs: (carrier, width)
    let mut jobs: Vec<(&str, usize)> = Vec::new();
    for c in CARRIERS {
        let bits = carrier_bits(c);
        let kind = carrier_kind(c);
        let w0 = if kind == Kind::SM { 2 } else { 1 };
        for w in w0..=bits {
            jobs.push((c, w));
        }
    }
    let parts: Vec<(Evidence, Vec<Violation>)> = jobs
        .par_iter()
        .enumerate()
        .map(|(ji, (c, w))| {
            let mut ev = Evidence::new();
            ev.sample_cap = 1;
            let mut vs: Vec<Violation> = Vec::new();
            let mut rng = ctx.rng("c07", ji as u64);
            let bits = carrier_bits(c);
            let kind = carrier_kind(c);
            let values = values_for(kind, bits, *w, exhaustive_upto, &mut rng);
            let mut offsets: Vec<usize> = (0..8).collect();
            if thorough {
                offsets.extend(8..=71);
            } else {
                offsets.extend([8, 9, 15, 16, 17, 23, 31, 33, 40, 47, 63, 64, 65, 71]);
            }
            // far into a message body (the payload window is 1023 bytes): around powers of two and at the very end
            let far: [usize; 16] = [127, 128, 129, 255, 256, 257, 511, 512, 513, 1023, 1024, 1025, 4095, 4096, 4097, 8184 - *w];
            offsets.extend(far.iter().map(|o| o + (ji % 8)).filter(|o| o + *w <= 8184));
            for &off in &offsets {
                let need = (off + w + 7) / 8;
                for bgk in 0..3u8 {
                    // thin the value list for large offsets in the quick tier
                    let stride = if !thorough && off >= 8 && values.len() > 300 { 7 } else { 1 };
                    let blen = need + (bgk as usize % 3);
                    let mut bg = vec![0u8; if off > 100 { blen.min(1023).max(need) } else { blen.min(24).max(need) }];
                    let stride = if off > 100 { stride.max(values.len() / 40 + 1) } else { stride };
                    match bgk {
                        0 => {}
                        1 => bg.iter_mut().for_each(|b| *b = 0xFF),
                        _ => rng.fill(&mut bg),
                    }
                    let mut i = (off + bgk as usize) % stride;
                    while i < values.len() {
                        let v = values[i];
                        i += stride;
                        ev.evaluations += 1;
                        let r = catch(|| case_dyn(c, &bg, off, *w, v));
                        let r = match r {
                            Ok(r) => r,
                            Err(p) => Err((panic_signature(&p), format!("panic: {}", p))),
                        };
                        match r {
                            Ok(class) => {
                                ev.distinct_by_construction += 1;
                                if ev.evaluations % 4096 == 1 {
                                    ev.class(&format!("{}/{}", kind.name(), class));
                                }
                            }
                            Err((sig, msg)) => {
                                if ctx.is_known(&sig) {
                                    ev.excluded_known += 1;
                                } else if vs.len() < 2 {
                                    vs.push(Violation {
                                        property: "C07".into(),
                                        signature: sig,
                                        message: msg,
                                        case: json!({"kind":"bitfield","carrier":c,"width":w,"offset":off,"background":hex(&bg),"value":v.to_string()}),
                                    });
                                }
                            }
                        }
                    }
                }
            }
            // overruns: every (offset,width) that does not fit buffers of 1..=3 bytes
            for blen in 1..=3usize {
                let bg = rng.bytes(blen);
                for off in 0..=(blen * 8 + 2) {
                    if off + w <= blen * 8 {
                        continue;
                    }
                    ev.evaluations += 1;
                    match case_dyn(c, &bg, off, *w, 1) {
                        Ok(_) => {
                            ev.distinct_by_construction += 1;
                            ev.class("overrun");
                        }
                        Err((sig, msg)) => {
                            if vs.len() < 2 {
                                vs.push(Violation {
                                    property: "C07".into(),
                                    signature: sig,
                                    message: msg,
                                    case: json!({"kind":"bitfield","carrier":c,"width":w,"offset":off,"background":hex(&bg),"value":"1"}),
                                });
                            }
                        }
                    }
                }
            }
            if ji % 37 == 0 {
                ev.sample(json!({"carrier":c,"width":w,"offsets":offsets.len(),"values_per_offset":values.len(),"example_value":values.get(values.len()/2).map(|v| v.to_string())}));
            }
            (ev, vs)
        })
        .collect();
    let mut ev = Evidence::new();
    let mut vs = Vec::new();
    for (e, v) in parts {
        ev.merge(e);
        vs.extend(v);
    }
    ev.notes.push("class counters are sampled (1 in 4096 evaluations)".into());
    // sequences of writes / reads on one Assembler / Parser, overrunning steps included (proptest, shrinking)
    {
        use proptest::prelude::*;
        let cases = ctx.n(400_000, 12_000_000);
        let (sev, svs) = pt_run(
            ctx,
            "c07-seq",
            cases,
            || (prop::collection::vec(any::<u8>(), 1..14), 0usize..24, prop::collection::vec((any::<u8>(), any::<u8>(), any::<u64>()), 1..14)),
            |(bg, start, ops): &(Vec<u8>, usize, Vec<SeqOp>), ev| {
                let r = oracle_sequence(bg, *start, ops);
                if let (Ok((refused, after)), Some(ev)) = (&r, ev) {
                    let mut key = bg.clone();
                    key.push(*start as u8);
                    for o in ops {
                        key.push(o.0);
                        key.push(o.1);
                        key.extend_from_slice(&o.2.to_le_bytes());
                    }
                    ev.nontrivial_bytes(&key);
                    ev.class(if *after > 0 { "sequence/accepted-step-after-a-refused-one" } else if *refused > 0 { "sequence/with-refused-step" } else { "sequence/all-accepted" });
                    if *after > 0 && ev.want_sample() {
                        ev.sample(json!({"buffer_bytes":bg.len(),"start_bit":start,"steps":ops.iter().map(|o| { let (c,w,v)=op_params(o); format!("{}:{}b={}", c, w, v) }).collect::<Vec<_>>(),"refused":refused}));
                    }
                }
                r.map(|_| ())
            },
            |(bg, start, ops)| json!({"kind":"bit-sequence","background":hex(bg),"start":start,"ops":ops.iter().map(|o| json!([o.0, o.1, o.2.to_string()])).collect::<Vec<_>>()}),
        );
        ev.merge(sev);
        vs.extend(svs);
    }
    vs.truncate(6);
    CheckResult { evidence: ev, rule, assumptions, violations: vs }
}
