//! C16 — SSR code-bias (1059, 1065) and GLONASS code-phase bias (1230) lists keep every entry or report an error.
use crate::biasmsg::{glo_payload, ssr_payload, BiasMsg};
use crate::bits::{hex, unhex};
use crate::frame::frame;
use crate::infra::*;
use crate::msggen::{self, decode_frame};
use rayon::prelude::*;
use rtcm_rs::msg::*;
use rtcm_rs::prelude::*;
use rtcm_rs::util::DataVec;
use serde_json::{json, Value as J};
use std::sync::OnceLock;

/// entry in harness terms: (satellite, signal index into BiasMsg::signals(), bias as f32)
#[derive(Clone, Copy, Debug, PartialEq)]
pub struct Entry {
    pub sat: u8,
    pub band: u8,
    pub attr: char,
    pub bias: f32,
}

/// the decoder's image of every bias pattern (grid), obtained by decoding one-entry frames built by the harness
pub fn grid(m: BiasMsg) -> &'static Vec<f32> {
    static G: [OnceLock<Vec<f32>>; 3] = [OnceLock::new(), OnceLock::new(), OnceLock::new()];
    let idx = match m {
        BiasMsg::M1059 => 0,
        BiasMsg::M1065 => 1,
        BiasMsg::M1230 => 2,
    };
    G[idx].get_or_init(|| {
        let w = m.bias_bits();
        let n = 1usize << w;
        (0..n)
            .map(|p| {
                let payload = match m {
                    BiasMsg::M1230 => glo_payload(0, 8, &[p as u16]),
                    _ => ssr_payload(m, 0, &[(3, vec![(m.signals()[0].0, p as u16)])], None),
                };
                match decode_frame(&frame(&payload)) {
                    Some(Message::Msg1059(t)) if t.biases.len() == 1 => t.biases[0].bias_m,
                    Some(Message::Msg1065(t)) if t.biases.len() == 1 => t.biases[0].bias_m,
                    Some(Message::Msg1230(t)) if t.glo_code_phase_biases.len() == 1 => t.glo_code_phase_biases[0].bias_m,
                    _ => f32::NAN,
                }
            })
            .collect()
    })
}

pub fn make_message(m: BiasMsg, entries: &[Entry]) -> Option<Message> {
    match m {
        BiasMsg::M1059 => {
            let mut v: DataVec<Msg1059CodeBias, { SAT_CAP_1059 }> = DataVec::new();
            if entries.len() > v.capacity() {
                return None;
            }
            for e in entries {
                v.push(Msg1059CodeBias { satellite_id: e.sat, signal_id: GpsSigId::new(e.band, e.attr), bias_m: e.bias });
            }
            let mut t = Msg1059T::default();
            t.gps_epoch_time_s = 1234;
            t.biases = v;
            Some(Message::Msg1059(t))
        }
        BiasMsg::M1065 => {
            let mut v: DataVec<Msg1065CodeBias, { SAT_CAP_1065 }> = DataVec::new();
            if entries.len() > v.capacity() {
                return None;
            }
            for e in entries {
                v.push(Msg1065CodeBias { satellite_id: e.sat, signal_id: GloSigId::new(e.band, e.attr), bias_m: e.bias });
            }
            let mut t = Msg1065T::default();
            t.biases = v;
            Some(Message::Msg1065(t))
        }
        BiasMsg::M1230 => {
            let mut v: DataVec<Msg1230CodePhaseBias, 4> = DataVec::new();
            if entries.len() > v.capacity() {
                return None;
            }
            for e in entries {
                v.push(Msg1230CodePhaseBias { signal_id: GloSigId::new(e.band, e.attr), bias_m: e.bias });
            }
            let mut t = Msg1230T::default();
            t.reference_station_id = 9;
            t.glo_code_phase_biases = v;
            Some(Message::Msg1230(t))
        }
    }
}
pub fn entries_of(m: &Message) -> Option<Vec<Entry>> {
    Some(match m {
        Message::Msg1059(t) => t.biases.iter().map(|b| Entry { sat: b.satellite_id, band: b.signal_id.band(), attr: b.signal_id.attribute(), bias: b.bias_m }).collect(),
        Message::Msg1065(t) => t.biases.iter().map(|b| Entry { sat: b.satellite_id, band: b.signal_id.band(), attr: b.signal_id.attribute(), bias: b.bias_m }).collect(),
        Message::Msg1230(t) => t.glo_code_phase_biases.iter().map(|b| Entry { sat: 0, band: b.signal_id.band(), attr: b.signal_id.attribute(), bias: b.bias_m }).collect(),
        _ => return None,
    })
}

fn capacity(m: BiasMsg) -> usize {
    match m {
        BiasMsg::M1230 => 4,
        _ => 390,
    }
}
fn precondition(m: BiasMsg, es: &[Entry]) -> bool {
    let mut seen: Vec<(u8, u8, char)> = Vec::new();
    for e in es {
        if !m.signals().iter().any(|(_, b, a)| *b == e.band && *a == e.attr) {
            return false;
        }
        let k = (if m == BiasMsg::M1230 { 0 } else { e.sat }, e.band, e.attr);
        if seen.contains(&k) {
            return false;
        }
        seen.push(k);
    }
    true
}

fn key(e: &Entry) -> (u8, u8, u32, u32) {
    (e.sat, e.band, e.attr as u32, e.bias.to_bits())
}

/// encoder-side oracle. `on_grid[i]` says whether entry i's bias is a grid value (then it must come back bit-exact).
pub fn oracle_encode(m: BiasMsg, es: &[Entry], on_grid: &[bool]) -> Result<&'static str, (String, String)> {
    oracle_encode_with(m, es, on_grid, None)
}
/// `before`: the builder's first use was another (typically refused) message
pub fn oracle_encode_with(m: BiasMsg, es: &[Entry], on_grid: &[bool], before: Option<&Message>) -> Result<&'static str, (String, String)> {
    let n = m.number();
    let r = catch(|| -> Result<&'static str, (String, String)> {
        let msg = match make_message(m, es) {
            Some(x) => x,
            None => return Ok("over-capacity-input"),
        };
        let built = match before {
            None => msggen::build(&msg),
            Some(d) => {
                let mut b = MessageBuilder::new();
                let _ = b.build_message(d).map(|f| f.len());
                b.build_message(&msg).map(|f| f.to_vec()).map_err(|e| format!("{:?}", e))
            }
        };
        let f = match built {
            Ok(f) => f,
            Err(_) => return Ok("refused"),
        };
        let back = decode_frame(&f).ok_or_else(|| ("c16:harness".to_string(), "built frame rejected".to_string()))?;
        let name = crate::registry::variant_name(&back);
        let pre = precondition(m, es);
        let got = match entries_of(&back) {
            Some(g) if name == format!("Msg{}", n) => g,
            _ => {
                return if pre {
                    Err((format!("c16:{}:decodes-to-{}", n, name), format!("{} list of {} entries: built frame decodes to {}", n, es.len(), name)))
                } else {
                    Ok("outside-precondition")
                }
            }
        };
        if got.len() > capacity(m) {
            return Err((format!("c16:{}:over-capacity", n), format!("decoded {} entries", got.len())));
        }
        // lists with duplicate (satellite, signal) keys are outside the round-trip precondition in its strict form, but the
        // statement's "no entry silently dropped ... or lost to a count field that wrapped" (quantified over "any number of
        // entries per satellite including more than 31") still applies when every signal is recognised and every satellite
        // is in range: if the encoder accepts such a list, every entry must come back
        let all_recognised = es.iter().all(|e| m.signals().iter().any(|(_, b, a)| *b == e.band && *a == e.attr)) && es.iter().all(|e| m == BiasMsg::M1230 || (e.sat as usize) < if m == BiasMsg::M1059 { 64 } else { 32 });
        if !pre && !(all_recognised && m != BiasMsg::M1230) {
            return Ok("outside-precondition");
        }
        if got.len() != es.len() {
            return Err((
                format!("c16:{}:entries-lost", n),
                format!("{}: {} entries over {} satellites encoded without error but {} entries decoded", n, es.len(), { let mut s: Vec<u8> = es.iter().map(|e| e.sat).collect(); s.sort(); s.dedup(); s.len() }, got.len()),
            ));
        }
        // grouped by ascending satellite
        if m != BiasMsg::M1230 && got.windows(2).any(|w| w[0].sat > w[1].sat) {
            return Err((format!("c16:{}:not-grouped", n), format!("{}: decoded entries are not grouped by ascending satellite", n)));
        }
        // multiset comparison per (satellite, signal) key: quantisation is monotone, so sorting both sides by bias pairs each
        // input with its own image even when a key occurs several times; on-grid biases must come back bit-exact, off-grid
        // ones within half a step (+ f32 slack)
        let step = m.step();
        let keyof = |e: &Entry| (if m == BiasMsg::M1230 { 0 } else { e.sat }, e.band, e.attr as u32);
        let mut ins: Vec<(usize, &Entry)> = es.iter().enumerate().collect();
        ins.sort_by(|a, b| keyof(a.1).cmp(&keyof(b.1)).then(a.1.bias.partial_cmp(&b.1.bias).unwrap_or(std::cmp::Ordering::Equal)));
        let mut outs: Vec<&Entry> = got.iter().collect();
        outs.sort_by(|a, b| keyof(a).cmp(&keyof(b)).then(a.bias.partial_cmp(&b.bias).unwrap_or(std::cmp::Ordering::Equal)));
        for ((i, e), g) in ins.iter().zip(outs.iter()) {
            let same_key = keyof(e) == keyof(g);
            let ok = same_key
                && if on_grid[*i] {
                    g.bias.to_bits() == e.bias.to_bits() || (g.bias == 0.0 && e.bias == 0.0)
                } else {
                    let slack = 16.0 * 2f64.powi(-24) * ((e.bias as f64).abs() + step);
                    ((g.bias as f64) - (e.bias as f64)).abs() <= step / 2.0 + slack
                };
            if !ok {
                return Err((
                    format!("c16:{}:entry-changed", n),
                    format!("{}: entry (satellite {}, signal {}{}, bias {}) has no counterpart after the round trip (closest: satellite {}, signal {}{}, bias {})", n, e.sat, e.band, e.attr, e.bias, g.sat, g.band, g.attr, g.bias),
                ));
            }
        }
        let _ = key;
        Ok("roundtrip")
    });
    match r {
        Ok(x) => x,
        Err(p) => Err((panic_signature(&p), format!("{}: panic: {}", n, p))),
    }
}

/// decoder-side oracle for hostile frames
pub fn oracle_frame(m: BiasMsg, f: &[u8]) -> Result<&'static str, (String, String)> {
    let r = catch(|| decode_frame(f));
    match r {
        Err(p) => Err((panic_signature(&p), format!("{}: decoding panicked: {}", m.number(), p))),
        Ok(None) => Err(("c16:harness".into(), "own frame rejected".into())),
        Ok(Some(Message::Corrupt)) => Ok("frame-corrupt"),
        Ok(Some(msg)) => match entries_of(&msg) {
            Some(es) if es.len() <= capacity(m) => Ok("frame-typed"),
            Some(es) => Err((format!("c16:{}:over-capacity", m.number()), format!("decoded {} entries", es.len()))),
            None => Err((format!("c16:{}:wrong-variant", m.number()), format!("decodes to {}", crate::registry::variant_name(&msg)))),
        },
    }
}

fn gen_entries(rng: &mut crate::rng::Rng, m: BiasMsg, shape: u64) -> (Vec<Entry>, Vec<bool>, &'static str) {
    let g = grid(m);
    let sigs = m.signals();
    let sat_range: u64 = match m {
        BiasMsg::M1059 => 64,
        BiasMsg::M1065 => 32,
        BiasMsg::M1230 => 1,
    };
    let w = m.bias_bits();
    let mut es: Vec<Entry> = Vec::new();
    let mut on_grid = Vec::new();
    let mut bias = |rng: &mut crate::rng::Rng| -> (f32, bool) {
        let k = rng.below(1u64 << w) as usize;
        let gv = g[k];
        match rng.below(3) {
            0 => {
                // off grid, in range: between neighbouring grid values
                let kk = (k as i64 + if k + 1 < (1usize << w) && k != (1usize << (w - 1)) - 1 { 1 } else { 0 }) as usize;
                let a = gv as f64;
                let b = g[kk] as f64;
                (((a + (b - a) * rng.f64_unit()) as f32), false)
            }
            _ => (gv, true),
        }
    };
    let label;
    match shape % 6 {
        // distinct pairs, scattered order, chosen number of satellites
        0 | 1 | 2 => {
            let nsat = match shape % 3 {
                0 => 1 + rng.below(sat_range),
                1 => sat_range,
                _ => (sat_range * 15 / 16).max(1),
            };
            let mut sats: Vec<u8> = (0..sat_range as u8).collect();
            rng.shuffle(&mut sats);
            sats.truncate(nsat as usize);
            let per = 1 + rng.below(sigs.len() as u64) as usize;
            for s in &sats {
                let mut idx: Vec<usize> = (0..sigs.len()).collect();
                rng.shuffle(&mut idx);
                for i in idx.iter().take(per) {
                    let (b, ok) = bias(rng);
                    es.push(Entry { sat: *s, band: sigs[*i].1, attr: sigs[*i].2, bias: b });
                    on_grid.push(ok);
                }
            }
            // scatter
            let mut order: Vec<usize> = (0..es.len()).collect();
            rng.shuffle(&mut order);
            es = order.iter().map(|i| es[*i]).collect();
            on_grid = order.iter().map(|i| on_grid[*i]).collect();
            let cap = capacity(m);
            es.truncate(cap);
            on_grid.truncate(cap);
            label = "distinct-pairs-scattered";
        }
        3 => {
            // few entries
            let n = rng.below(5) as usize;
            let mut pairs: Vec<(u8, usize)> = Vec::new();
            while pairs.len() < n.min(sigs.len() * sat_range as usize) {
                let p = (rng.below(sat_range) as u8, rng.below(sigs.len() as u64) as usize);
                if !pairs.contains(&p) {
                    pairs.push(p);
                }
            }
            for (s, i) in pairs {
                let (b, ok) = bias(rng);
                es.push(Entry { sat: s, band: sigs[i].1, attr: sigs[i].2, bias: b });
                on_grid.push(ok);
            }
            es.truncate(capacity(m));
            on_grid.truncate(capacity(m));
            label = "small";
        }
        4 => {
            // duplicate-heavy: one satellite with many entries (any count up to the capacity, in particular 32..=390),
            // alone or with a few other satellites, in ascending or scattered order
            let n = match rng.below(4) {
                0 => 32 + rng.below(120),
                1 => 250 + rng.below(45),
                _ => 1 + rng.below(390),
            } as usize;
            let s = rng.below(sat_range) as u8;
            let others = rng.below(4);
            for _ in 0..n.min(capacity(m)) {
                let i = rng.below(sigs.len() as u64) as usize;
                let (b, ok) = bias(rng);
                es.push(Entry { sat: s, band: sigs[i].1, attr: sigs[i].2, bias: b });
                on_grid.push(ok);
            }
            for _ in 0..others {
                if es.len() < capacity(m) {
                    let i = rng.below(sigs.len() as u64) as usize;
                    let (b, ok) = bias(rng);
                    let pos = rng.below(es.len() as u64 + 1) as usize;
                    let sat = rng.below(sat_range) as u8;
                    let at = match rng.below(3) {
                        0 => 0,
                        1 => es.len(),
                        _ => pos,
                    };
                    es.insert(at, Entry { sat, band: sigs[i].1, attr: sigs[i].2, bias: b });
                    on_grid.insert(at, ok);
                }
            }
            label = "duplicate-heavy";
        }
        _ => {
            // unrecognised signals / out-of-range satellites mixed in
            let n = rng.below(20) as usize;
            for _ in 0..n.min(capacity(m)) {
                let i = rng.below(sigs.len() as u64) as usize;
                let (b, ok) = bias(rng);
                let (band, attr) = if rng.below(3) == 0 { (rng.below(10) as u8, ['C', 'Z', 'q', 'P'][rng.below(4) as usize]) } else { (sigs[i].1, sigs[i].2) };
                es.push(Entry { sat: if rng.below(10) == 0 { 200 } else { rng.below(sat_range) as u8 }, band, attr, bias: b });
                on_grid.push(ok);
            }
            label = "unrecognised-mixed";
        }
    }
    (es, on_grid, label)
}

pub fn case_json(m: BiasMsg, es: &[Entry], on_grid: &[bool]) -> J {
    json!({"kind":"bias-list","message":m.number(),"entries":es.iter().zip(on_grid.iter()).map(|(e,g)| json!([e.sat, e.band, e.attr as u32, e.bias.to_bits(), g])).collect::<Vec<_>>()})
}

pub fn run(ctx: &Ctx, replay: Option<&J>) -> CheckResult {
    let rule = "typed lists for 1059 (satellites 0..63, 12 signals), 1065 (0..31, 4 signals), 1230 (4 signals): distinct (satellite, signal) pairs scattered through the list with 1..all \
        satellites (incl. 60 and 64 of 64) and up to 390 entries, biases on the decoder's grid (bit-exact comparison) and off-grid in range (half-step tolerance), plus lists with duplicate keys (one satellite with 1..390 entries, alone or scattered among others: if accepted, no entry may be lost) and lists outside the \
        precondition (unrecognised signals, satellite 200); and hostile frames with maximal per-satellite counts. oracle: build is Err, or the frame \
        decodes to the same variant with the same multiset of (satellite, signal, bias) grouped by ascending satellite (also when the builder's first use was a refused or long message); outside the precondition and for hostile frames: no panic and never \
        more entries than the capacity. non-trivial = >=2 satellites with interleaved entries, >=60 satellites, or a hostile frame; distinct = hash of the entry list / frame"
        .to_string();
    let assumptions = vec![
        "bias grid = the decoder's image of all 2^14 / 2^16 patterns (one-entry frames built by the harness)".to_string(),
        "SSR signal tables pinned in the harness (biasmsg.rs)".to_string(),
    ];
    if let Some(c) = replay {
        let mut ev = Evidence::new();
        ev.eval();
        let mut vs = Vec::new();
        let m = match c["message"].as_u64().unwrap_or(0) {
            1059 => BiasMsg::M1059,
            1065 => BiasMsg::M1065,
            _ => BiasMsg::M1230,
        };
        let r = if c["kind"] == "frame" {
            oracle_frame(m, &unhex(c["bytes"].as_str().unwrap_or("")).unwrap_or_default())
        } else {
            let mut es = Vec::new();
            let mut og = Vec::new();
            for e in c["entries"].as_array().cloned().unwrap_or_default() {
                es.push(Entry {
                    sat: e[0].as_u64().unwrap_or(0) as u8,
                    band: e[1].as_u64().unwrap_or(0) as u8,
                    attr: char::from_u32(e[2].as_u64().unwrap_or(67) as u32).unwrap_or('C'),
                    bias: f32::from_bits(e[3].as_u64().unwrap_or(0) as u32),
                });
                og.push(e[4].as_bool().unwrap_or(false));
            }
            oracle_encode(m, &es, &og)
        };
        if let Err((sig, msg)) = r {
            vs.push(Violation { property: "C16".into(), signature: sig, message: msg, case: c.clone() });
        }
        return CheckResult { evidence: ev, rule, assumptions, violations: vs };
    }
    for m in [BiasMsg::M1059, BiasMsg::M1065, BiasMsg::M1230] {
        let g = grid(m);
        if g.iter().any(|x| x.is_nan()) {
            let mut ev = Evidence::new();
            ev.eval();
            return CheckResult {
                evidence: ev,
                rule,
                assumptions,
                violations: vec![Violation { property: "C16".into(), signature: format!("c16:{}:grid", m.number()), message: "one-entry frames do not decode to one entry".into(), case: json!({"kind":"grid","message":m.number()}) }],
            };
        }
    }
    let _ = crate::msggen::corpus(ctx.seed);
    let pool = crate::checks::c12::pool(ctx.seed);
    let dist = crate::checks::c12::disturbers(ctx.seed);
    let lists = ctx.n(600_000, 60_000_000);
    let (mut ev, mut vs) = par_shards(48, |shard| {
        let mut ev = Evidence::new();
        ev.sample_cap = 1;
        let mut vs: Vec<Violation> = Vec::new();
        let m = [BiasMsg::M1059, BiasMsg::M1065, BiasMsg::M1230][shard % 3];
        let mut rng = ctx.rng("c16", shard as u64);
        let n = lists / 48 / if m == BiasMsg::M1230 { 1 } else { 1 };
        for i in 0..n {
            let (es, og, label) = gen_entries(&mut rng, m, i + shard as u64);
            ev.evaluations += 1;
            let mut r = oracle_encode(m, &es, &og);
            if let Ok("roundtrip") = r {
                // the same list on a builder whose first use was a refused / long message
                let d = &pool[dist[(i as usize + shard) % dist.len()]];
                if let Err((sig, msg)) = oracle_encode_with(m, &es, &og, Some(&d.msg)) {
                    r = Err((format!("{}(builder-used-before)", sig), format!("builder used before for [{}]: {}", d.label, msg)));
                }
            }
            match r {
                Ok(outcome) => {
                    let mut sats: Vec<u8> = es.iter().map(|e| e.sat).collect();
                    let interleaved = sats.windows(2).filter(|w| w[0] != w[1]).count() > { sats.sort(); sats.dedup(); sats.len() };
                    if sats.len() >= 60 || (sats.len() >= 2 && interleaved) || m == BiasMsg::M1230 && es.len() >= 2 {
                        ev.nontrivial_hash(hash_str(&format!("{}{:?}", m.number(), es)));
                    }
                    if i % 4 == 0 {
                        ev.class(&format!("{}/{}/{}", m.number(), label, outcome));
                    }
                    if sats.len() >= 64 {
                        ev.class(&format!("{}/64-satellites/{}", m.number(), outcome));
                    }
                    if ev.want_sample() && outcome == "roundtrip" && es.len() > 20 {
                        ev.sample(json!({"message":m.number(),"entries":es.len(),"satellites":sats.len(),"shape":label,"first_entries":es.iter().take(4).map(|e| format!("sat{} {}{} {}", e.sat, e.band, e.attr, e.bias)).collect::<Vec<_>>()}));
                    }
                }
                Err((sig, msg)) => {
                    if ctx.is_known(&sig) {
                        ev.excluded_known += 1;
                    } else if !vs.iter().any(|v| v.signature == sig) {
                        vs.push(Violation { property: "C16".into(), signature: sig, message: msg, case: case_json(m, &es, &og) });
                    }
                }
            }
        }
        (ev, vs)
    });
    // hostile frames
    let frames = ctx.n(300_000, 40_000_000);
    let (fev, fvs) = par_shards(32, |shard| {
        let mut ev = Evidence::new();
        ev.sample_cap = 1;
        let mut vs: Vec<Violation> = Vec::new();
        let m = [BiasMsg::M1059, BiasMsg::M1065, BiasMsg::M1230][shard % 3];
        let mut rng = ctx.rng("c16-frames", shard as u64);
        for i in 0..frames / 32 {
            let (p, class) = loop {
                let (p, class) = msggen::synth_payload(&mut rng, m.number());
                if matches!(class, msggen::SynthClass::BiasHostile | msggen::SynthClass::BiasList | msggen::SynthClass::Truncated) || m == BiasMsg::M1230 {
                    break (p, class);
                }
            };
            let p = if i % 5 == 4 { msggen::havoc(&mut rng, &p) } else { p };
            let f = frame(&p);
            ev.evaluations += 1;
            match oracle_frame(m, &f) {
                Ok(outcome) => {
                    ev.nontrivial_bytes(&f);
                    if i % 4 == 0 {
                        ev.class(&format!("{}/frame/{}/{}", m.number(), class.name(), outcome));
                    }
                    if ev.want_sample() && class == msggen::SynthClass::BiasHostile {
                        ev.sample(json!({"message":m.number(),"hostile_frame_len":f.len(),"outcome":outcome,"prefix":hex(&f[..f.len().min(20)])}));
                    }
                }
                Err((sig, msg)) => {
                    if ctx.is_known(&sig) {
                        ev.excluded_known += 1;
                    } else if !vs.iter().any(|v| v.signature == sig) {
                        vs.push(Violation { property: "C16".into(), signature: sig, message: msg, case: json!({"kind":"frame","message":m.number(),"bytes":hex(&f)}) });
                    }
                }
            }
        }
        (ev, vs)
    });
    ev.merge(fev);
    vs.extend(fvs);
    ev.notes.push("shape/outcome class counters are sampled (1 in 4)".into());
    let mut uniq: Vec<Violation> = Vec::new();
    for v in vs {
        if !uniq.iter().any(|u| u.signature == v.signature) {
            uniq.push(v);
        }
    }
    CheckResult { evidence: ev, rule, assumptions, violations: uniq }
}
