//! C08 — every data field is lossless on its grid and has exactly one 'absent' pattern (hook: df::dfs).
use crate::biasmsg::{glo_payload, ssr_payload, BiasMsg};
use crate::bits::hex;
use crate::fields::{is_pinned_sm, FieldDesc, SweepAcc, FIELDS};
use crate::frame::frame;
use crate::infra::*;
use rayon::prelude::*;
use rtcm_rs::prelude::*;
use serde_json::{json, Value as J};

fn one_pattern(f: &FieldDesc, p: u64) -> Result<&'static str, (String, String)> {
    let r = (f.rt)(p);
    let neg_zero = 1u64 << (f.width - 1);
    let sm_ok = is_pinned_sm(f.name) && p == neg_zero && r.out == 0;
    if !r.ok {
        return Err((format!("c08:{}:codec-error", f.name), format!("field {} pattern {:#x}: decode or encode returned an error", f.name, p)));
    }
    if r.out != p && !sm_ok {
        return Err((format!("c08:{}:pattern-changed", f.name), format!("field {} ({} bits): pattern {:#x} decodes and re-encodes to {:#x}", f.name, f.width, p, r.out)));
    }
    if r.offset != f.width as usize {
        return Err((format!("c08:{}:width", f.name), format!("field {} wrote {} bits, declared width {}", f.name, r.offset, f.width)));
    }
    if !r.finite {
        return Err((format!("c08:{}:not-finite", f.name), format!("field {} pattern {:#x} decodes to a non-finite value", f.name, p)));
    }
    if r.absent && !f.optional {
        return Err((format!("c08:{}:absent-nonoptional", f.name), format!("field {} pattern {:#x} decodes to absent", f.name, p)));
    }
    Ok(if r.absent { "absent" } else { "present" })
}

/// bias codecs through one-entry frames and the public API: frame(pattern) -> decode -> encode == frame
pub fn bias_roundtrip(m: BiasMsg, sig_index: usize, sat: u8, pat: u16) -> Result<(), (String, String)> {
    let sigs = m.signals();
    let (sig, _, _) = sigs[sig_index % sigs.len()];
    let payload = match m {
        BiasMsg::M1230 => glo_payload(0, 8 >> (sig_index % 4), &[pat]),
        _ => ssr_payload(m, 0, &[(sat, vec![(sig, pat & 0x3FFF)])], None),
    };
    let f = frame(&payload);
    let mf = MessageFrame::new(&f).map_err(|e| ("c08:harness".to_string(), format!("own frame rejected: {:?}", e)))?;
    let msg = mf.get_message();
    let name = crate::registry::variant_name(&msg);
    if name != format!("Msg{}", m.number()) {
        return Err((format!("c08:bias{}:decode", m.number()), format!("one-entry {} frame with pattern {:#x} decodes to {}", m.number(), pat, name)));
    }
    let (n, finite) = match &msg {
        Message::Msg1059(t) => (t.biases.len(), t.biases.iter().all(|b| b.bias_m.is_finite())),
        Message::Msg1065(t) => (t.biases.len(), t.biases.iter().all(|b| b.bias_m.is_finite())),
        Message::Msg1230(t) => (t.glo_code_phase_biases.len(), t.glo_code_phase_biases.iter().all(|b| b.bias_m.is_finite())),
        _ => (0, false),
    };
    if n != 1 || !finite {
        return Err((format!("c08:bias{}:entries", m.number()), format!("one-entry frame decodes to {} entries (finite={})", n, finite)));
    }
    let mut b = MessageBuilder::new();
    match b.build_message(&msg) {
        Ok(out) if out == &f[..] => Ok(()),
        Ok(out) => Err((
            format!("c08:bias{}:pattern-changed", m.number()),
            format!("{} bias pattern {:#x} (signal index {}): re-encoded frame {} differs from {}", m.number(), pat, sig_index, hex(out), hex(&f)),
        )),
        Err(e) => Err((format!("c08:bias{}:encode-error", m.number()), format!("{:?}", e))),
    }
}

/// domain constants (value, width) written at every admissible bit offset: week / day lengths in ms and s and their
/// neighbours, week-number and counter limits, the speed of light
const DICTIONARY: &[(u64, usize)] = &[
    (604_800_000, 30), (604_799_999, 30), (604_800_001, 30), (86_400_000, 30), (86_400_000, 27), (86_399_999, 27), (86_400_001, 27), (604_800, 20), (604_799, 20), (604_801, 20),
    (86_400, 17), (86_399, 17), (86_401, 17), (43_200, 16), (3_600_000, 22), (3_599_999, 22), (1_023, 10), (1_024, 11), (4_095, 12), (8_191, 13), (900, 10), (1_000_000, 20),
    (299_792_458, 29), (299_792, 19), (36_000, 16), (100_000, 17),
];

/// decode -> encode of one frame: Some(true) reproduced bit for bit, Some(false) not, None = not a typed message / refused
fn survives(f: &[u8], number: u16) -> Option<bool> {
    let m = catch(|| crate::msggen::decode_frame(f)).ok().flatten()?;
    if !crate::msggen::is_typed(&m) || m.number() != Some(number) {
        return None;
    }
    let f1 = catch(|| crate::msggen::build(&m)).ok()?.ok()?;
    Some(f1 == f)
}

/// Message-level form of the field identity for fields that are *not* plain `df!` definitions of dfs.rs any more (a
/// wrapper module, a special case inside a codec): in the all-zero golden frame of every type built from plain numeric
/// fields, a bit is *faithful* if flipping it alone survives decode -> encode; every dictionary constant written over a
/// window of faithful bits must survive too. (Windows touching a count, a sign bit of a sign-magnitude field - whose
/// single flip gives the redundant negative zero -, a reserved or padding bit are not faithful and are skipped.)
fn dictionary_pass(ctx: &Ctx) -> (Evidence, Vec<Violation>) {
    use crate::bits::{get_bits, set_bits};
    let golden = crate::pool::golden_frames();
    let skip = |n: u16| crate::msm::Cons::of_number(n).is_some() || matches!(n, 1029 | 1059 | 1065 | 1230 | 1007 | 1008 | 1033 | 1021 | 1022 | 1300 | 1301 | 1302);
    let bases: Vec<(u16, Vec<u8>)> = golden
        .iter()
        .filter(|(name, _)| name.contains("_0.rtcm"))
        .filter_map(|(_, f)| {
            let n = get_bits(&f[3..], 0, 12)? as u16;
            if skip(n) || !crate::registry::is_supported(n) {
                None
            } else {
                Some((n, f.clone()))
            }
        })
        .collect();
    let _ = ctx;
    let parts: Vec<(Evidence, Vec<Violation>)> = bases
        .par_iter()
        .map(|(number, f)| {
            let mut ev = Evidence::new();
            ev.sample_cap = 0;
            let mut vs: Vec<Violation> = Vec::new();
            if survives(f, *number) != Some(true) {
                ev.class("dictionary/base-not-a-fixed-point(skipped)");
                return (ev, vs);
            }
            let p = f[3..f.len() - 3].to_vec();
            let nbits = p.len() * 8;
            let mut faithful = vec![false; nbits];
            for b in 12..nbits {
                let mut q = p.clone();
                q[b / 8] ^= 0x80 >> (b % 8);
                faithful[b] = survives(&frame(&q), *number) == Some(true);
            }
            for (k, w) in DICTIONARY {
                if *w + 12 > nbits {
                    continue;
                }
                for o in 12..=nbits - *w {
                    if !faithful[o..o + *w].iter().all(|x| *x) {
                        continue;
                    }
                    let mut q = p.clone();
                    set_bits(&mut q, o, *w, *k);
                    let g = frame(&q);
                    ev.evaluations += 1;
                    match survives(&g, *number) {
                        Some(true) => ev.distinct_by_construction += 1,
                        _ => {
                            if vs.is_empty() {
                                vs.push(Violation {
                                    property: "C08".into(),
                                    signature: format!("c08:{}:dictionary-pattern-changed", number),
                                    message: format!("{}: the {}-bit pattern {:#x} ({}) written at payload bit {} of the all-zero frame - every bit of that window survives decode -> encode on its own - does not survive", number, w, k, k, o),
                                    case: json!({"kind":"dictionary-frame","number":number,"bytes":hex(&g),"offset":o,"width":w,"value":k}),
                                });
                            }
                        }
                    }
                }
            }
            ev.class("dictionary/base-frame");
            (ev, vs)
        })
        .collect();
    let mut ev = Evidence::new();
    let mut vs = Vec::new();
    for (e, v) in parts {
        ev.merge(e);
        vs.extend(v);
    }
    ev.class_n("dictionary constants at faithful windows (message level)", ev.evaluations);
    (ev, vs)
}

pub fn run(ctx: &Ctx, replay: Option<&J>) -> CheckResult {
    let maxw: u32 = ctx.tier.pick(30, 32);
    let rule = format!(
        "every df! field found in /repo/src/df/dfs.rs ({} fields) x bit patterns: ALL 2^w patterns for w<={} (enumerated, distinct by construction); \
         for wider fields boundary windows of 2^{} patterns around 0, the sign boundary and the top, one-hot/one-cold patterns, all patterns of the form (a<<s)+d (every shift s, up to 2^10 high parts a, |d|<=16: limb/mantissa \
         boundaries, prefix masks) and 2^{} seeded random patterns (these samples are not counted as distinct); the three hand-written bias codecs (1059/1065: 2^14, 1230: 2^16 patterns) enumerated completely \
         through one-entry frames and the public API; MSM frames of all 49 types with random raw patterns in every satellite / cell field (message level: decode -> encode must reproduce the frame); a dictionary of 26 domain constants (week / day lengths, counter limits ...) written at every window of individually faithful bits of the all-zero golden frame of every plain-field message type. oracle: pattern -> own bit writer -> decode -> encode (over a buffer pre-filled with 0xFF for even and 0x00 for odd patterns; the extreme patterns over both) -> own bit reader returns the pattern (only the \
         14 pinned sign-magnitude fields may map 10..0 to 0), written width == declared width, value finite, optional fields have exactly one absent pattern \
         which is what 'absent' encodes to. every pattern is non-trivial",
        FIELDS.len(),
        maxw,
        ctx.tier.pick(16, 22),
        ctx.tier.pick(22, 27)
    );
    let assumptions = vec![
        "field codecs reached through the cfg(rtcm_rs_verif) re-export of df::dfs".to_string(),
        "sign-magnitude field list (DF111-119,121,124,125,133,135) typed from RTCM 10403.3, not from the source".to_string(),
        "fields wider than the exhaustive bound rely on samples plus the error-bound argument in DESIGN.md §3 C08".to_string(),
    ];
    if let Some(c) = replay {
        let mut ev = Evidence::new();
        ev.eval();
        let mut vs = Vec::new();
        if c["kind"] == "field-pattern" {
            let name = c["field"].as_str().unwrap_or("");
            let p = c["pattern"].as_str().and_then(|s| u64::from_str_radix(s.trim_start_matches("0x"), 16).ok()).unwrap_or(0);
            if let Some(f) = FIELDS.iter().find(|f| f.name == name) {
                if let Err((sig, msg)) = one_pattern(f, p & (u64::MAX >> (64 - f.width))) {
                    vs.push(Violation { property: "C08".into(), signature: sig, message: msg, case: c.clone() });
                }
            }
        } else if c["kind"] == "bias-pattern" {
            let m = match c["message"].as_u64().unwrap_or(0) {
                1059 => BiasMsg::M1059,
                1065 => BiasMsg::M1065,
                _ => BiasMsg::M1230,
            };
            let r = bias_roundtrip(m, c["signal_index"].as_u64().unwrap_or(0) as usize, c["satellite"].as_u64().unwrap_or(0) as u8, c["pattern"].as_u64().unwrap_or(0) as u16);
            if let Err((sig, msg)) = r {
                vs.push(Violation { property: "C08".into(), signature: sig, message: msg, case: c.clone() });
            }
        } else if c["kind"] == "dictionary-frame" {
            let g = crate::bits::unhex(c["bytes"].as_str().unwrap_or("")).unwrap_or_default();
            let n = c["number"].as_u64().unwrap_or(0) as u16;
            if survives(&g, n) != Some(true) {
                vs.push(Violation { property: "C08".into(), signature: format!("c08:{}:dictionary-pattern-changed", n), message: "dictionary pattern inside a message does not survive decode -> encode".into(), case: c.clone() });
            }
        } else if c["kind"] == "msm-frame" {
            let f0 = crate::bits::unhex(c["bytes"].as_str().unwrap_or("")).unwrap_or_default();
            let ok = catch(|| crate::msggen::decode_frame(&f0).filter(|m| crate::msggen::is_typed(m)).and_then(|m| crate::msggen::build(&m).ok()).map(|f1| f1 == f0).unwrap_or(false)).unwrap_or(false);
            if !ok {
                vs.push(Violation { property: "C08".into(), signature: "c08:msm:field-patterns-in-message".into(), message: "MSM frame does not survive decode -> encode".into(), case: c.clone() });
            }
        } else if c["kind"] == "absent-count" {
            // re-enumerate that field
            let name = c["field"].as_str().unwrap_or("");
            if let Some(f) = FIELDS.iter().find(|f| f.name == name) {
                if f.width <= 32 {
                    let mut acc = SweepAcc::default();
                    (f.sweep)(0, 1u64 << f.width, is_pinned_sm(f.name), &mut acc);
                    if acc.absent != 1 {
                        vs.push(Violation { property: "C08".into(), signature: format!("c08:{}:absent-count", f.name), message: format!("{} patterns decode to absent", acc.absent), case: c.clone() });
                    }
                }
            }
        }
        return CheckResult { evidence: ev, rule, assumptions, violations: vs };
    }

    // ---- tasks: (field index, lo, hi, exhaustive?) ----
    const CHUNK: u64 = 1 << 22;
    let win: u64 = 1 << ctx.tier.pick(16u32, 22u32);
    let mut tasks: Vec<(usize, u64, u64)> = Vec::new();
    for (i, f) in FIELDS.iter().enumerate() {
        let total: u64 = 1u64 << f.width;
        if f.width <= maxw {
            let mut lo = 0;
            while lo < total {
                let hi = (lo + CHUNK).min(total);
                tasks.push((i, lo, hi));
                lo = hi;
            }
        } else {
            let half = total / 2;
            // windows: around 0, around the sign boundary, at the top
            let mut wins: Vec<(u64, u64)> = vec![(0, win), (half - win, half + win), (total - win, total)];
            wins.sort();
            for (a, b) in wins {
                let mut lo = a;
                while lo < b {
                    let hi = (lo + CHUNK).min(b);
                    tasks.push((i, lo, hi));
                    lo = hi;
                }
            }
        }
    }
    let results: Vec<(usize, SweepAcc)> = tasks
        .par_iter()
        .map(|(i, lo, hi)| {
            let f = &FIELDS[*i];
            let mut acc = SweepAcc::default();
            (f.sweep)(*lo, *hi, is_pinned_sm(f.name), &mut acc);
            (*i, acc)
        })
        .collect();
    let mut per: Vec<SweepAcc> = (0..FIELDS.len()).map(|_| SweepAcc::default()).collect();
    for (i, a) in results {
        let p = &mut per[i];
        p.patterns += a.patterns;
        p.absent += a.absent;
        if p.first_absent.is_none() {
            p.first_absent = a.first_absent;
        }
        p.neg_zero_normalised += a.neg_zero_normalised;
        for f in a.failures {
            if p.failures.len() < 4 {
                p.failures.push(f);
            }
        }
    }
    let mut ev = Evidence::new();
    let mut vs: Vec<Violation> = Vec::new();
    let mut push_v = |vs: &mut Vec<Violation>, ev: &mut Evidence, sig: String, msg: String, case: J| {
        if ctx.is_known(&sig) {
            ev.excluded_known += 1;
        } else if vs.len() < 8 {
            vs.push(Violation { property: "C08".into(), signature: sig, message: msg, case });
        }
    };
    let mut exhaustive_fields = 0u64;
    let mut sampled_fields = 0u64;
    let mut neg_zero_fields = Vec::new();
    // ---- random samples + one-hot for wide fields, and per-field verdicts ----
    let nrand: u64 = 1u64 << ctx.tier.pick(22u32, 27u32);
    let wide: Vec<usize> = (0..FIELDS.len()).filter(|i| FIELDS[*i].width > maxw).collect();
    let rand_parts: Vec<(usize, u64, Vec<(u64, String, String)>, u64)> = wide
        .par_iter()
        .flat_map(|i| (0..16u64).into_par_iter().map(move |sh| (*i, sh)))
        .map(|(i, sh)| {
            let f = &FIELDS[i];
            let mut rng = ctx.rng(&format!("c08-rand-{}", f.name), sh);
            let mask = u64::MAX >> (64 - f.width);
            let mut fails = Vec::new();
            let mut absent = 0u64;
            let n = nrand / 16;
            let mut count = 0u64;
            let mut test = |p: u64, fails: &mut Vec<(u64, String, String)>, absent: &mut u64| match one_pattern(f, p) {
                Ok("absent") => *absent += 1,
                Ok(_) => {}
                Err((sig, msg)) => {
                    if fails.len() < 2 {
                        fails.push((p, sig, msg))
                    }
                }
            };
            if sh == 0 {
                for b in 0..f.width {
                    test(1u64 << b, &mut fails, &mut absent);
                    test(mask ^ (1u64 << b), &mut fails, &mut absent);
                    count += 2;
                }
            }
            // "few significant high bits + small offset": (a << s) + d for every shift s, up to 2^10 values of the high part a
            // and |d| <= 16 — covers every multiple of 2^32 / 2^24 / 2^16 ... (limb and mantissa boundaries), prefix masks and
            // their neighbours; shifts are distributed over the 16 shards
            for sft in (0..f.width).filter(|x| (*x as u64) % 16 == sh) {
                let hi_bits = (f.width - sft).min(10);
                for a in 0..(1u64 << hi_bits) {
                    // the top hi_bits of the field
                    let base = (a << (f.width - hi_bits)) >> 0;
                    let base2 = a << sft;
                    for d in -16i64..=16 {
                        test((base as i64).wrapping_add(d << sft.min(4)) as u64 & mask, &mut fails, &mut absent);
                        test((base2 as i64).wrapping_add(d) as u64 & mask, &mut fails, &mut absent);
                        count += 2;
                    }
                }
            }
            for _ in 0..n {
                test(rng.next_u64() & mask, &mut fails, &mut absent);
                count += 1;
            }
            (i, count, fails, absent)
        })
        .collect();
    let mut rand_absent: Vec<u64> = vec![0; FIELDS.len()];
    for (i, count, fails, absent) in rand_parts {
        ev.evaluations += count;
        ev.class_n("random+one-hot patterns (wide fields)", count);
        rand_absent[i] += absent;
        for (p, sig, msg) in fails {
            push_v(&mut vs, &mut ev, sig, msg, json!({"kind":"field-pattern","field":FIELDS[i].name,"pattern":format!("{:#x}", p)}));
        }
    }
    for (i, f) in FIELDS.iter().enumerate() {
        let a = &per[i];
        ev.evaluations += a.patterns;
        ev.distinct_by_construction += a.patterns;
        ev.class_n(&format!("width/{:02}", f.width), a.patterns);
        let exhaustive = f.width <= maxw;
        if exhaustive {
            exhaustive_fields += 1;
        } else {
            sampled_fields += 1;
        }
        for (p, d) in &a.failures {
            // recompute precise signature/message
            let (sig, msg) = match one_pattern(f, *p) {
                Err(x) => x,
                Ok(_) => (format!("c08:{}:unstable", f.name), d.clone()),
            };
            push_v(&mut vs, &mut ev, sig, msg, json!({"kind":"field-pattern","field":f.name,"pattern":format!("{:#x}", p)}));
        }
        if a.neg_zero_normalised > 0 {
            neg_zero_fields.push(f.name);
        }
        // optional fields: exactly one absent pattern, which is what None encodes to
        if f.optional {
            match (f.enc_default)() {
                Ok(p0) => match (f.dec)(p0) {
                    Ok((true, _)) => {}
                    other => push_v(
                        &mut vs,
                        &mut ev,
                        format!("c08:{}:absent-encoding", f.name),
                        format!("field {}: 'absent' encodes to {:#x}, which decodes to {:?}", f.name, p0, other),
                        json!({"kind":"absent-count","field":f.name}),
                    ),
                },
                Err(e) => push_v(&mut vs, &mut ev, format!("c08:{}:absent-encoding", f.name), format!("encoding absent failed: {}", e), json!({"kind":"absent-count","field":f.name})),
            }
            let total_absent = a.absent + rand_absent[i];
            if exhaustive && a.absent != 1 {
                push_v(
                    &mut vs,
                    &mut ev,
                    format!("c08:{}:absent-count", f.name),
                    format!("field {}: {} of the 2^{} patterns decode to absent (expected exactly one)", f.name, a.absent, f.width),
                    json!({"kind":"absent-count","field":f.name}),
                );
            }
            if !exhaustive && total_absent > 1 + rand_absent[i].min(1) * 0 && a.absent + rand_absent[i] > 0 {
                // sampled: every absent pattern seen must be the one 'absent' encodes to — checked pattern-wise below
            }
        } else if a.absent + rand_absent[i] > 0 {
            push_v(&mut vs, &mut ev, format!("c08:{}:absent-nonoptional", f.name), format!("non-optional field {} decoded to absent", f.name), json!({"kind":"absent-count","field":f.name}));
        }
        if ev.want_sample() && (i % 29 == 3) {
            ev.sample(json!({"field":f.name,"width":f.width,"carrier":f.it,"type":f.dt,"optional":f.optional,"patterns":a.patterns,"exhaustive":exhaustive,
                "absent_patterns":a.absent,"first_absent":a.first_absent.map(|p| format!("{:#x}",p)),"neg_zero_normalised":a.neg_zero_normalised}));
        }
    }
    // ---- hand-written bias codecs through frames ----
    let bias_jobs: Vec<(BiasMsg, usize)> = {
        let mut v = Vec::new();
        for m in [BiasMsg::M1059, BiasMsg::M1065, BiasMsg::M1230] {
            for s in 0..m.signals().len() {
                v.push((m, s));
            }
        }
        v
    };
    let bias_parts: Vec<(u64, Vec<Violation>)> = bias_jobs
        .par_iter()
        .map(|(m, s)| {
            let mut n = 0u64;
            let mut vs = Vec::new();
            let total: u32 = 1 << m.bias_bits();
            // all patterns for the first signal of each message, every 7th (+ boundaries) for the others in quick
            let step = if *s == 0 || ctx.tier == Tier::Thorough { 1 } else { 7 };
            let mut p = 0u32;
            while p < total {
                let sat = ((p as u64 * 31 + *s as u64) % if *m == BiasMsg::M1065 { 32 } else { 64 }) as u8;
                n += 1;
                if let Err((sig, msg)) = bias_roundtrip(*m, *s, sat, p as u16) {
                    if vs.len() < 2 {
                        vs.push(Violation {
                            property: "C08".into(),
                            signature: sig,
                            message: msg,
                            case: json!({"kind":"bias-pattern","message":m.number(),"signal_index":s,"satellite":sat,"pattern":p}),
                        });
                    }
                }
                p += step;
            }
            (n, vs)
        })
        .collect();
    for (n, v) in bias_parts {
        ev.evaluations += n;
        ev.distinct_by_construction += n;
        ev.class_n("bias codecs via one-entry frames", n);
        for x in v {
            if ctx.is_known(&x.signature) {
                ev.excluded_known += 1;
            } else {
                vs.push(x);
            }
        }
    }
    // ---- message level: every field of the MSM data blocks, inside a message ----
    // a frame laid out per the standard with random raw patterns in every satellite/cell field must survive
    // decode -> encode bit for bit (each pattern comes back in its own cell and column)
    {
        use crate::msm::{Cons, ALL_CONS};
        let per = ctx.n(150, 6000);
        let jobs: Vec<(Cons, u8)> = ALL_CONS.iter().flat_map(|c| (1..=7u8).map(move |l| (*c, l))).collect();
        let parts: Vec<(u64, Vec<Violation>)> = jobs
            .par_iter()
            .map(|(cons, level)| {
                let mut n = 0u64;
                let mut vs = Vec::new();
                let number = cons.base() + *level as u16;
                if !crate::registry::is_supported(number) {
                    return (n, vs);
                }
                let mut rng = ctx.rng("c08-msm", number as u64);
                for i in 0..per {
                    let spec = if i % 5 == 0 { crate::msm::spec_with_shape(&mut rng, *cons, *level, 64 / cons.table().len().min(16), cons.table().len().min(16)) } else { crate::msm::random_spec(&mut rng, *cons, *level, 64) };
                    let p0 = spec.synth();
                    if p0.len() > 1023 {
                        continue;
                    }
                    let f0 = frame(&p0);
                    n += 1;
                    let r = catch(|| -> Result<(), String> {
                        let m = crate::msggen::decode_frame(&f0).ok_or("own frame rejected")?;
                        if !crate::msggen::is_typed(&m) {
                            return Err(format!("decodes to {}", crate::registry::variant_name(&m)));
                        }
                        let f1 = crate::msggen::build(&m)?;
                        if f1 != f0 {
                            let pos = f1.iter().zip(f0.iter()).position(|(a, b)| a != b).unwrap_or(0);
                            return Err(format!("re-encoded frame differs at byte {} ({} satellites, {} cells)", pos, spec.sats.len(), spec.ncells()));
                        }
                        Ok(())
                    });
                    let r = match r {
                        Ok(r) => r,
                        Err(p) => Err(format!("panic: {}", p)),
                    };
                    if let Err(e) = r {
                        if vs.is_empty() {
                            vs.push(Violation {
                                property: "C08".into(),
                                signature: format!("c08:msm{}:field-patterns-in-message", level),
                                message: format!("{}: field patterns of an MSM frame do not survive decode -> encode: {}", number, e),
                                case: json!({"kind":"msm-frame","bytes":hex(&f0)}),
                            });
                        }
                    }
                }
                (n, vs)
            })
            .collect();
        for (n, v) in parts {
            ev.evaluations += n;
            ev.class_n("msm frames with random field patterns (message level)", n);
            for x in v {
                if ctx.is_known(&x.signature) {
                    ev.excluded_known += 1;
                } else if !vs.iter().any(|y| y.signature == x.signature) {
                    vs.push(x);
                }
            }
        }
    }
    // ---- message level: dictionary of domain constants at every bit offset of the all-zero golden frames ----
    {
        let (dev, dvs) = dictionary_pass(ctx);
        ev.merge(dev);
        for x in dvs {
            if ctx.is_known(&x.signature) {
                ev.excluded_known += 1;
            } else if !vs.iter().any(|y| y.signature == x.signature) {
                vs.push(x);
            }
        }
    }
    ev.extra.insert("fields".into(), json!(FIELDS.len()));
    ev.extra.insert("fields_enumerated_exhaustively".into(), json!(exhaustive_fields));
    ev.extra.insert("fields_sampled".into(), json!(sampled_fields));
    ev.extra.insert("exhaustive_width_bound".into(), json!(maxw));
    ev.extra.insert("fields_with_negative_zero_normalisation".into(), json!(neg_zero_fields));
    ev.exhaustive = Some(sampled_fields == 0);
    ev.extra.insert("exhaustive_subdomain".into(), json!(format!("all 2^w patterns of the {} fields with w<={}; bias codecs 2^14/2^14/2^16", exhaustive_fields, maxw)));
    vs.truncate(8);
    CheckResult { evidence: ev, rule, assumptions, violations: vs }
}
