//! C05 — the stream scanner finds the first deliverable frame and skips only dead bytes;
//! C06 — frame delivery does not depend on how the stream is split into chunks.
use crate::bits::{hex, unhex};
use crate::frame::{frame_with_reserved, ref_check, ref_scan, ref_scan_all, RefVerdict};
use crate::infra::*;
use proptest::prelude::*;
use rtcm_rs::prelude::*;
use serde_json::{json, Value as J};

#[derive(Clone, Debug)]
pub enum Seg {
    Valid { payload: Vec<u8>, reserved: u8 },
    Garbage(Vec<u8>),
    LoneD3,
    /// 0xD3 + header announcing `len` payload bytes followed by only `body`
    LongHeader { len: u16, reserved: u8, body: Vec<u8> },
    Corrupted { payload: Vec<u8>, flip_bit: u16 },
    Truncated { payload: Vec<u8>, keep: u16 },
    /// outer candidate whose payload contains a complete inner frame
    Nested { pre: Vec<u8>, inner: Vec<u8>, post: Vec<u8>, outer_valid: bool },
    D3Rich(Vec<u8>),
}

fn payload_strategy() -> impl Strategy<Value = Vec<u8>> {
    prop_oneof![
        6 => prop::collection::vec(any::<u8>(), 0..24),
        2 => prop::collection::vec(any::<u8>(), 24..200),
        1 => prop::collection::vec(any::<u8>(), 1000..1024),
        1 => Just(Vec::new()),
        1 => prop::collection::vec(prop_oneof![Just(0xD3u8), any::<u8>()], 1..40),
    ]
}

pub fn seg_strategy() -> impl Strategy<Value = Seg> {
    prop_oneof![
        10 => (payload_strategy(), 0u8..64).prop_map(|(payload, reserved)| Seg::Valid { payload, reserved }),
        3 => prop::collection::vec(any::<u8>(), 0..20).prop_map(Seg::Garbage),
        2 => Just(Seg::LoneD3),
        2 => (0u16..1024, 0u8..64, prop::collection::vec(any::<u8>(), 0..30)).prop_map(|(len, reserved, body)| Seg::LongHeader { len, reserved, body }),
        3 => (payload_strategy(), any::<u16>()).prop_map(|(payload, flip_bit)| Seg::Corrupted { payload, flip_bit }),
        3 => (payload_strategy(), any::<u16>()).prop_map(|(payload, keep)| Seg::Truncated { payload, keep }),
        2 => (prop::collection::vec(any::<u8>(), 0..6), prop::collection::vec(any::<u8>(), 0..12), prop::collection::vec(any::<u8>(), 0..6), any::<bool>())
            .prop_map(|(pre, inner, post, outer_valid)| Seg::Nested { pre, inner, post, outer_valid }),
        2 => prop::collection::vec(prop_oneof![Just(0xD3u8), Just(0x00u8), any::<u8>()], 1..24).prop_map(Seg::D3Rich),
    ]
}

pub fn seg_kind(s: &Seg) -> &'static str {
    match s {
        Seg::Valid { .. } => "valid",
        Seg::Garbage(_) => "garbage",
        Seg::LoneD3 => "lone-d3",
        Seg::LongHeader { .. } => "long-header",
        Seg::Corrupted { .. } => "corrupted",
        Seg::Truncated { .. } => "truncated",
        Seg::Nested { .. } => "nested",
        Seg::D3Rich(_) => "d3-rich",
    }
}

pub fn build_stream(segs: &[Seg]) -> Vec<u8> {
    let mut out = Vec::new();
    for s in segs {
        match s {
            Seg::Valid { payload, reserved } => out.extend(frame_with_reserved(payload, *reserved)),
            Seg::Garbage(g) => out.extend_from_slice(g),
            Seg::LoneD3 => out.push(0xD3),
            Seg::LongHeader { len, reserved, body } => {
                out.push(0xD3);
                out.push(((reserved & 0x3F) << 2) | ((len >> 8) as u8 & 3));
                out.push(*len as u8);
                out.extend_from_slice(body);
            }
            Seg::Corrupted { payload, flip_bit } => {
                let mut f = frame_with_reserved(payload, 0);
                let nbits = (f.len() - 3) * 8;
                let b = 24 + (*flip_bit as usize * nbits >> 16);
                f[b / 8] ^= 0x80 >> (b % 8);
                out.extend(f);
            }
            Seg::Truncated { payload, keep } => {
                let f = frame_with_reserved(payload, 0);
                let k = (*keep as usize * f.len()) >> 16; // 0..len-1
                out.extend_from_slice(&f[..k]);
            }
            Seg::Nested { pre, inner, post, outer_valid } => {
                let mut p = pre.clone();
                p.extend(frame_with_reserved(inner, 0));
                p.extend_from_slice(post);
                let mut f = frame_with_reserved(&p, 0);
                if !*outer_valid {
                    let n = f.len();
                    f[n - 1] ^= 0x01;
                }
                out.extend(f);
            }
            Seg::D3Rich(g) => out.extend_from_slice(g),
        }
    }
    out
}

fn rng_bool(r: &mut crate::rng::Rng) -> bool {
    r.below(2) == 0
}

fn frame_range(buf: &[u8], mf: &MessageFrame) -> (usize, usize) {
    let base = buf.as_ptr() as usize;
    let p = mf.frame_data().as_ptr() as usize;
    let a = p.wrapping_sub(base);
    (a, a + mf.frame_len())
}

/// Noisy stretches: many complete wrong-checksum candidates in a row (hundreds of damaged short frames, dozens of
/// damaged kilobyte frames, long 0xD3 runs, tens of KiB of random or preamble-rich noise) between valid frames.
/// Returns (stream, label). `size` selects among the sizes of a kind.
pub fn noisy_stream(rng: &mut crate::rng::Rng, kind: usize, size: usize) -> (Vec<u8>, &'static str) {
    let mut buf: Vec<u8> = Vec::new();
    for _ in 0..rng.below(3) {
        let l = rng.below(40) as usize;
        buf.extend(crate::pool::random_frame(rng, l, false));
    }
    let label;
    match kind % 6 {
        0 => {
            label = "noisy/hundreds-of-damaged-short-frames";
            let n = [255usize, 256, 257, 300, 600, 1200][size % 6];
            for _ in 0..n {
                let l = rng.below(9) as usize;
                let mut f = crate::pool::random_frame(rng, l, false);
                let k = f.len() - 1 - rng.below(3) as usize;
                f[k] ^= 1 << rng.below(8);
                buf.extend(f);
            }
        }
        1 => {
            label = "noisy/dozens-of-damaged-kilobyte-frames";
            let n = [64usize, 65, 66, 67, 70, 140][size % 6];
            for _ in 0..n {
                let l = 990 + rng.below(34) as usize;
                let mut f = crate::pool::random_frame(rng, l, false);
                let k = 3 + rng.below((f.len() - 3) as u64) as usize;
                f[k] ^= 1 << rng.below(8);
                buf.extend(f);
            }
        }
        2 => {
            label = "noisy/long-0xD3-run";
            let n = [1030usize, 1050, 1100, 1300, 2500, 66_000][size % 6];
            buf.extend(std::iter::repeat(0xD3u8).take(n));
            // the run ends in something that is not an incomplete candidate: enough filler for the last candidates
            let fill = rng.bytes(1100);
            buf.extend(fill.into_iter().map(|b| if b == 0xD3 { 0x3D } else { b }));
        }
        3 => {
            label = "noisy/random-noise";
            let n = [33_000usize, 66_000, 70_000, 100_000, 140_000, 200_000][size % 6];
            let g = rng.bytes(n);
            buf.extend(g);
        }
        4 => {
            label = "noisy/preamble-rich-noise";
            let n = [8_000usize, 20_000, 33_000, 66_000, 80_000, 140_000][size % 6];
            let mut g = rng.bytes(n);
            for b in g.iter_mut() {
                if rng.below(4) == 0 {
                    *b = 0xD3;
                }
            }
            buf.extend(g);
        }
        _ => {
            label = "noisy/dense-empty-candidates";
            let n = [255usize, 256, 257, 400, 2000, 12_000][size % 6];
            for _ in 0..n {
                // a complete L=0 candidate with a wrong checksum
                let rb = rng_bool(rng);
                let mut f = crate::pool::random_frame(rng, 0, rb);
                f[3 + rng.below(3) as usize] ^= 1 << rng.below(8);
                buf.extend(f);
            }
        }
    }
    for _ in 0..1 + rng.below(3) {
        let l = rng.below(60) as usize;
        let rb = rng_bool(rng);
        buf.extend(crate::pool::random_frame(rng, l, rb));
    }
    if rng.below(3) == 0 {
        let l = 10 + rng.below(50) as usize;
        let f = crate::pool::random_frame(rng, l, false);
        let keep = 1 + rng.below((f.len() - 1) as u64) as usize;
        buf.extend_from_slice(&f[..keep]);
    }
    (buf, label)
}

/// One MsgFrameIter driven by a sequence of different calls (next, nth(k), size_hint, consumed, take(k).count(),
/// peekable().peek(), find-none) against a model that only knows the reference frame list: whatever the order of calls,
/// every frame handed out is the next reference frame and `consumed()` is its end. The sequence is a function of `seed`.
pub fn oracle_iter_ops(buf: &[u8], seed: u64) -> Result<(), (String, String)> {
    match catch(|| oracle_iter_ops_inner(buf, seed)) {
        Ok(r) => r,
        Err(p) => Err((panic_signature(&p), format!("a sequence of iterator calls panicked: {}", p))),
    }
}
fn oracle_iter_ops_inner(buf: &[u8], seed: u64) -> Result<(), (String, String)> {
    let (rframes, rtotal) = ref_scan_all(buf);
    let n = rframes.len();
    let mut rng = crate::rng::Rng::new(seed ^ 0x17E2_A7);
    let mut it = MsgFrameIter::new(buf);
    let mut i = 0usize; // frames handed out (or skipped) so far; > n once the end was seen
    let mut trace: Vec<String> = Vec::new();
    let expect_consumed = |i: usize| -> usize {
        if i == 0 {
            0
        } else if i <= n {
            rframes[i - 1].1
        } else {
            rtotal
        }
    };
    let fail = |what: String, trace: &Vec<String>| -> Result<(), (String, String)> { Err(("c05:iterator-call-sequence".into(), format!("after [{}]: {}", trace.join(", "), what))) };
    for _ in 0..(4 + rng.below(10)) {
        match rng.below(8) {
            0 | 1 => {
                let got = (&mut it).next().map(|m| frame_range(buf, &m));
                trace.push("next".into());
                if got != rframes.get(i).copied() {
                    return fail(format!("next() returned {:?}, the reference list has {:?} at position {}", got, rframes.get(i), i), &trace);
                }
                i = (i + 1).min(n + 1);
            }
            2 => {
                let k = rng.below(3) as usize;
                let got = (&mut it).nth(k).map(|m| frame_range(buf, &m));
                trace.push(format!("nth({})", k));
                if got != rframes.get(i + k).copied() {
                    return fail(format!("nth({}) returned {:?}, the reference list has {:?} at position {}", k, got, rframes.get(i + k), i + k), &trace);
                }
                i = (i + k + 1).min(n + 1);
            }
            3 => {
                let (lo, hi) = (&mut it).size_hint();
                trace.push("size_hint".into());
                let rem = n.saturating_sub(i);
                if lo > rem || hi.map(|h| h < rem).unwrap_or(false) {
                    return fail(format!("size_hint() = ({}, {:?}) but {} frames remain", lo, hi, rem), &trace);
                }
            }
            4 => {
                trace.push("consumed".into());
                // only defined by the statement after a frame was handed out or the end was reported
                if i > 0 && it.consumed() != expect_consumed(i) {
                    return fail(format!("consumed() = {}, expected {}", it.consumed(), expect_consumed(i)), &trace);
                }
            }
            5 => {
                let k = 1 + rng.below(2) as usize;
                let c = (&mut it).take(k).count();
                trace.push(format!("take({}).count", k));
                let rem = n.saturating_sub(i);
                if c != k.min(rem) {
                    return fail(format!("take({}).count() = {}, {} frames remained", k, c, rem), &trace);
                }
                // take(k) stops after k items without asking for more; with fewer left it has seen the end
                i = if rem >= k { i + k } else { n + 1 };
            }
            6 => {
                let mut pk = (&mut it).peekable();
                let got = pk.peek().map(|m| frame_range(buf, m));
                trace.push("peekable.peek".into());
                if got != rframes.get(i).copied() {
                    return fail(format!("peek() returned {:?}, the reference list has {:?}", got, rframes.get(i)), &trace);
                }
                i = (i + 1).min(n + 1);
            }
            _ => {
                let (lo, _) = (&mut it).size_hint();
                let got = (&mut it).nth(1).map(|m| frame_range(buf, &m));
                trace.push("size_hint+nth(1)".into());
                if lo > n.saturating_sub(i) || got != rframes.get(i + 1).copied() {
                    return fail(format!("size_hint() then nth(1) returned {:?}, the reference list has {:?}", got, rframes.get(i + 1)), &trace);
                }
                i = (i + 2).min(n + 1);
            }
        }
        if it.consumed() > buf.len() {
            return fail(format!("consumed() = {} exceeds the buffer length {}", it.consumed(), buf.len()), &trace);
        }
    }
    Ok(())
}

/// C05 oracle on a raw buffer
pub fn oracle_scan(buf: &[u8]) -> Result<(), (String, String)> {
    oracle_scan_with(buf, true)
}
/// `adaptors` = false: scanner, dead-byte invariant and plain iteration only (for very long noisy streams)
pub fn oracle_scan_with(buf: &[u8], adaptors: bool) -> Result<(), (String, String)> {
    match catch(|| oracle_scan_inner(buf, adaptors)) {
        Ok(r) => r,
        Err(p) => Err((panic_signature(&p), format!("scanning / iterating panicked: {}", p))),
    }
}
fn oracle_scan_inner(buf: &[u8], adaptors: bool) -> Result<(), (String, String)> {
    let (c, f) = next_msg_frame(buf);
    let (rc, rf) = ref_scan(buf);
    if c > buf.len() {
        return Err(("c05:consumed-exceeds-len".into(), format!("consumed {} > buffer length {}", c, buf.len())));
    }
    let got = match &f {
        Some(m) => {
            let r = frame_range(buf, m);
            if r.1 > buf.len() || r.0 > r.1 || m.frame_data() != &buf[r.0..r.1] {
                return Err(("c05:frame-not-in-buffer".into(), "delivered frame is not a sub-slice of the buffer".into()));
            }
            if r.1 != c {
                return Err(("c05:frame-end-ne-consumed".into(), format!("delivered frame spans {}..{} but consumed is {}", r.0, r.1, c)));
            }
            Some(r)
        }
        None => None,
    };
    if c != rc || got != rf {
        return Err((
            "c05:scan-differs-from-model".into(),
            format!("scanner: consumed={} frame={:?}; reference: consumed={} frame={:?}", c, got, rc, rf),
        ));
    }
    // every byte consumed without being part of the delivered frame cannot begin a valid frame
    let dead_end = got.map(|r| r.0).unwrap_or(c);
    for i in 0..dead_end {
        if buf[i] == 0xD3 && ref_check(&buf[i..]) != RefVerdict::NotValid {
            return Err(("c05:live-byte-skipped".into(), format!("position {} starts a valid or still incomplete candidate but was consumed", i)));
        }
    }
    // iterator
    let (rframes, rtotal) = ref_scan_all(buf);
    let mut it = MsgFrameIter::new(buf);
    let mut frames = Vec::new();
    let mut steps = 0usize;
    for m in &mut it {
        // a frame handed out from inside a buffer is the same frame as its bytes parsed on their own
        if m.frame_len() <= 300 || steps < 2 {
            let r = frame_range(buf, &m);
            if r.1 <= buf.len() && r.0 <= r.1 {
                if let Ok(alone) = MessageFrame::new(&buf[r.0..r.1]) {
                    if alone.message_number() != m.message_number() || alone.crc() != m.crc() || alone.data() != m.data() || format!("{:?}", alone.get_message()) != format!("{:?}", m.get_message()) {
                        return Err((
                            "c05:delivered-frame-differs-from-its-bytes".into(),
                            format!("frame delivered from offset {} of a {}-byte buffer: number {:?} / {} payload bytes, the same bytes parsed alone: number {:?} / {} payload bytes", r.0, buf.len(), m.message_number(), m.data_len(), alone.message_number(), alone.data_len()),
                        ));
                    }
                }
            }
        }
        frames.push(frame_range(buf, &m));
        steps += 1;
        if steps > buf.len() + 1 {
            return Err(("c05:iterator-runs-on".into(), "iterator yielded more frames than bytes".into()));
        }
    }
    if frames != rframes || it.consumed() != rtotal {
        return Err((
            "c05:iterator-differs-from-model".into(),
            format!("iterator frames={:?} consumed={}; reference frames={:?} consumed={}", frames, it.consumed(), rframes, rtotal),
        ));
    }
    if !adaptors {
        return Ok(());
    }
    // the other Iterator entry points (nth / skip / step_by / count / last are built on next(); an override must agree)
    {
        let n = rframes.len();
        for k in 0..=(n.min(4)) {
            let mut it2 = MsgFrameIter::new(buf);
            let got = (&mut it2).nth(k).map(|m| frame_range(buf, &m));
            let want = rframes.get(k).copied();
            if got != want {
                return Err(("c05:iterator-nth".into(), format!("nth({}) returned {:?}, the reference frame list gives {:?}", k, got, want)));
            }
            // after nth(k) the iterator continues with frame k+1
            let rest: Vec<(usize, usize)> = (&mut it2).map(|m| frame_range(buf, &m)).collect();
            let want_rest: Vec<(usize, usize)> = rframes.iter().skip(k + 1).copied().collect();
            if rest != want_rest {
                return Err(("c05:iterator-nth".into(), format!("after nth({}) the iterator yields {:?}, expected {:?}", k, rest, want_rest)));
            }
        }
        let mut it3 = MsgFrameIter::new(buf);
        let skipped: Vec<(usize, usize)> = (&mut it3).skip(1).map(|m| frame_range(buf, &m)).collect();
        if skipped != rframes.iter().skip(1).copied().collect::<Vec<_>>() {
            return Err(("c05:iterator-skip".into(), format!("skip(1) yields {:?}, reference {:?}", skipped, &rframes[1.min(n)..])));
        }
        let mut it4 = MsgFrameIter::new(buf);
        let stepped: Vec<(usize, usize)> = (&mut it4).step_by(2).map(|m| frame_range(buf, &m)).collect();
        if stepped != rframes.iter().step_by(2).copied().collect::<Vec<_>>() {
            return Err(("c05:iterator-step_by".into(), format!("step_by(2) yields {:?}", stepped)));
        }
        let mut it5 = MsgFrameIter::new(buf);
        if (&mut it5).count() != n {
            return Err(("c05:iterator-count".into(), format!("count() differs from the {} reference frames", n)));
        }
        let mut it6 = MsgFrameIter::new(buf);
        let last = (&mut it6).last().map(|m| frame_range(buf, &m));
        if last != rframes.last().copied() {
            return Err(("c05:iterator-last".into(), format!("last() returned {:?}", last)));
        }
        let mut it7 = MsgFrameIter::new(buf);
        let (lo, hi) = (&mut it7).size_hint();
        if lo > n || hi.map(|h| h < n).unwrap_or(false) {
            return Err(("c05:iterator-size_hint".into(), format!("size_hint() = ({}, {:?}) excludes the actual number of frames {}", lo, hi, n)));
        }
    }
    // fold / try_fold based consumers (for_each, find, position, all), take, peekable, enumerate+filter: an override of
    // fold, try_fold, advance_by-like helpers or a fused flag must agree with next()
    {
        let n = rframes.len();
        let mut it8 = MsgFrameIter::new(buf);
        let folded: Vec<(usize, usize)> = (&mut it8).fold(Vec::new(), |mut acc, m| {
            acc.push(frame_range(buf, &m));
            acc
        });
        if folded != rframes || it8.consumed() != it.consumed() {
            return Err(("c05:iterator-fold".into(), format!("fold() visits {:?} (consumed {}), reference {:?} (consumed {})", folded, it8.consumed(), rframes, it.consumed())));
        }
        let mut it9 = MsgFrameIter::new(buf);
        let mut seen: Vec<(usize, usize)> = Vec::new();
        (&mut it9).for_each(|m| seen.push(frame_range(buf, &m)));
        if seen != rframes {
            return Err(("c05:iterator-for_each".into(), format!("for_each() visits {:?}, reference {:?}", seen, rframes)));
        }
        if n > 0 {
            let k = n / 2;
            let mut it10 = MsgFrameIter::new(buf);
            let found = (&mut it10).find(|m| frame_range(buf, m) == rframes[k]).map(|m| frame_range(buf, &m));
            let next_after = (&mut it10).next().map(|m| frame_range(buf, &m));
            if found != Some(rframes[k]) || next_after != rframes.get(k + 1).copied() {
                return Err(("c05:iterator-find".into(), format!("find() of frame {} returned {:?}, then next() {:?}", k, found, next_after)));
            }
            let mut it11 = MsgFrameIter::new(buf);
            let pos = (&mut it11).position(|m| frame_range(buf, &m) == rframes[k]);
            if pos != Some(k) {
                return Err(("c05:iterator-position".into(), format!("position() of frame {} returned {:?}", k, pos)));
            }
            let mut it12 = MsgFrameIter::new(buf);
            let taken: Vec<(usize, usize)> = (&mut it12).take(k + 1).map(|m| frame_range(buf, &m)).collect();
            let rest: Vec<(usize, usize)> = (&mut it12).map(|m| frame_range(buf, &m)).collect();
            if taken != rframes[..k + 1] || rest != rframes[k + 1..] {
                return Err(("c05:iterator-take".into(), format!("take({}) yields {:?}, then the rest {:?}", k + 1, taken, rest)));
            }
            let mut it13 = MsgFrameIter::new(buf);
            let mut pk = (&mut it13).peekable();
            let peeked = pk.peek().map(|m| frame_range(buf, m));
            let again: Vec<(usize, usize)> = pk.map(|m| frame_range(buf, &m)).collect();
            if peeked != Some(rframes[0]) || again != rframes {
                return Err(("c05:iterator-peekable".into(), format!("peek() gives {:?} and the peeked iterator then yields {:?}", peeked, again)));
            }
        }
        let mut it14 = MsgFrameIter::new(buf);
        let odd: Vec<(usize, usize)> = (&mut it14).enumerate().filter(|(i, _)| i % 2 == 1).map(|(_, m)| frame_range(buf, &m)).collect();
        if odd != rframes.iter().skip(1).step_by(2).copied().collect::<Vec<_>>() {
            return Err(("c05:iterator-enumerate-filter".into(), format!("enumerate().filter(odd) yields {:?}", odd)));
        }
    }
    // mixed call sequences on one iterator (two sequences derived from the buffer contents)
    let h = hash_bytes(buf);
    oracle_iter_ops(buf, h)?;
    oracle_iter_ops(buf, h.rotate_left(17) ^ 0x9E37_79B9)?;
    // further calls after the end keep returning None and do not move backwards
    let before = it.consumed();
    for _ in 0..3 {
        if (&mut it).next().is_some() || it.consumed() != before {
            return Err(("c05:iterator-after-end".into(), "iterator yielded a frame or moved after it had reported the end".into()));
        }
    }
    if it.consumed() > buf.len() {
        return Err(("c05:iterator-consumed-exceeds-len".into(), format!("iterator consumed {} > {}", it.consumed(), buf.len())));
    }
    Ok(())
}

/// what a caller sees of a delivered frame: its bytes followed by its message number and a digest of the decoded message
/// (a frame delivered from a longer buffer must not be interpreted differently from the same frame delivered from a shorter one)
fn frame_record(m: &MessageFrame) -> Vec<u8> {
    let mut v = m.frame_data().to_vec();
    v.extend_from_slice(&[0xFE, 0xED]);
    match m.message_number() {
        Some(n) => v.extend_from_slice(&[1, (n >> 8) as u8, n as u8]),
        None => v.extend_from_slice(&[0, 0, 0]),
    }
    v.extend_from_slice(&crate::infra::hash_str(&format!("{:?}", m.get_message())).to_le_bytes());
    v
}
fn ref_record(frame: &[u8]) -> Vec<u8> {
    // the same record computed from the frame alone (its own L+6 bytes)
    match MessageFrame::new(frame) {
        Ok(m) => frame_record(&m),
        Err(_) => frame.to_vec(),
    }
}

/// caller model of C06: feed chunks, drop consumed bytes, append new data
pub fn feed_chunks(stream: &[u8], cuts: &[usize]) -> Result<(Vec<Vec<u8>>, usize), (String, String)> {
    let mut buf: Vec<u8> = Vec::new();
    let mut delivered = Vec::new();
    let mut total = 0usize;
    let mut prev = 0usize;
    let mut bounds: Vec<usize> = cuts.iter().map(|c| (*c).min(stream.len())).collect();
    bounds.sort();
    bounds.push(stream.len());
    for b in bounds {
        buf.extend_from_slice(&stream[prev..b]);
        prev = b;
        let mut guard = 0usize;
        loop {
            let (c, f) = next_msg_frame(&buf);
            if c > buf.len() {
                return Err(("c06:consumed-exceeds-len".into(), format!("consumed {} > buffered {}", c, buf.len())));
            }
            let had = f.is_some();
            if let Some(m) = f {
                delivered.push(frame_record(&m));
            }
            total += c;
            buf.drain(..c);
            if !had {
                break;
            }
            guard += 1;
            if guard > stream.len() + 2 {
                return Err(("c06:caller-loop-runs-on".into(), "scanner keeps delivering frames from a finite buffer".into()));
            }
        }
    }
    Ok((delivered, total))
}

/// second caller model: each time new data arrives the caller runs a MsgFrameIter over what it holds, takes the
/// frames it yields and drops `consumed()` bytes
pub fn feed_chunks_iter(stream: &[u8], cuts: &[usize]) -> Result<(Vec<Vec<u8>>, usize), (String, String)> {
    let mut buf: Vec<u8> = Vec::new();
    let mut delivered = Vec::new();
    let mut total = 0usize;
    let mut prev = 0usize;
    let mut bounds: Vec<usize> = cuts.iter().map(|c| (*c).min(stream.len())).collect();
    bounds.sort();
    bounds.push(stream.len());
    for b in bounds {
        buf.extend_from_slice(&stream[prev..b]);
        prev = b;
        let c = {
            let mut it = MsgFrameIter::new(&buf);
            let mut guard = 0usize;
            for m in &mut it {
                delivered.push(frame_record(&m));
                guard += 1;
                if guard > buf.len() + 1 {
                    return Err(("c06:iterator-runs-on".into(), "iterator keeps yielding frames".into()));
                }
            }
            it.consumed()
        };
        if c > buf.len() {
            return Err(("c06:consumed-exceeds-len".into(), format!("iterator consumed {} > buffered {}", c, buf.len())));
        }
        total += c;
        buf.drain(..c);
    }
    Ok((delivered, total))
}

pub fn oracle_chunks(stream: &[u8], cuts: &[usize]) -> Result<(), (String, String)> {
    match catch(|| oracle_chunks_inner(stream, cuts)) {
        Ok(r) => r,
        Err(p) => Err((panic_signature(&p), format!("feeding the stream in pieces panicked: {}", p))),
    }
}
fn oracle_chunks_inner(stream: &[u8], cuts: &[usize]) -> Result<(), (String, String)> {
    let (d1, t1) = feed_chunks(stream, &[])?;
    let (d2, t2) = feed_chunks(stream, cuts)?;
    let (d3, t3) = feed_chunks_iter(stream, cuts)?;
    if d3 != d1 || t3 != t1 {
        return Err((
            "c06:iterator-chunked-differs-from-oneshot".into(),
            format!("one-shot: {} frames, consumed {}; chunked through MsgFrameIter ({} cuts): {} frames, consumed {}", d1.len(), t1, cuts.len(), d3.len(), t3),
        ));
    }
    if d1 != d2 || t1 != t2 {
        return Err((
            "c06:chunked-differs-from-oneshot".into(),
            format!(
                "one-shot: {} frames, consumed {}; chunked ({} cuts): {} frames, consumed {}",
                d1.len(),
                t1,
                cuts.len(),
                d2.len(),
                t2
            ),
        ));
    }
    let (rf, rt) = ref_scan_all(stream);
    let rbytes: Vec<Vec<u8>> = rf.iter().map(|(a, b)| ref_record(&stream[*a..*b])).collect();
    if rbytes != d2 || rt != t2 {
        return Err((
            "c06:chunked-differs-from-model".into(),
            format!("reference model: {} frames, consumed {}; chunked: {} frames, consumed {}", rbytes.len(), rt, d2.len(), t2),
        ));
    }
    Ok(())
}

#[derive(Clone, Debug)]
pub struct ChunkCase {
    pub segs: Vec<Seg>,
    pub fracs: Vec<u16>,
    /// (selector of a 0xD3 position, delta) — cuts forced near candidate starts (inside preamble/length/payload/CRC)
    pub near: Vec<(u16, u16)>,
    pub one_byte: bool,
}

pub fn cuts_of(case: &ChunkCase, stream: &[u8]) -> Vec<usize> {
    let n = stream.len();
    if case.one_byte {
        return (1..n).collect();
    }
    let mut cuts: Vec<usize> = case.fracs.iter().map(|f| (*f as usize * (n + 1)) >> 16).collect();
    let d3: Vec<usize> = stream.iter().enumerate().filter(|(_, b)| **b == 0xD3).map(|(i, _)| i).collect();
    if !d3.is_empty() {
        for (sel, delta) in &case.near {
            let p = d3[(*sel as usize * d3.len()) >> 16];
            // candidate geometry
            let l = if p + 2 < n { (((stream[p + 1] & 3) as usize) << 8) | stream[p + 2] as usize } else { 0 };
            let offs = [1usize, 2, 3, 4, 5, l + 2, l + 3, l + 4, l + 5, l + 6, (l + 6) / 2];
            let c = p + offs[(*delta as usize * offs.len()) >> 16];
            cuts.push(c.min(n));
        }
    }
    cuts.sort();
    cuts
}

pub fn run(ctx: &Ctx, replay: Option<&J>, chunked: bool) -> CheckResult {
    crate::crc::self_check();
    let rule = if !chunked {
        "proptest-generated buffers of up to 6 segments {valid frame (payload 0..=1023, random reserved bits), garbage, lone 0xD3, \
         header announcing a long body, frame with one flipped bit, truncated frame, frame nested in the payload of a valid/invalid outer \
         candidate, D3-rich bytes}, plus an enumeration of all 65536 (reserved bits, length) header patterns as valid frames inside buffers longer than a maximum-length frame, streams of 66-200 KB (total lengths around 2^16 and 2^17), and noisy stretches between valid frames (255..1200 damaged short frames, 64..140 damaged kilobyte frames, 0xD3 runs of 1030..66000 bytes, 33-200 KB of random and preamble-rich noise, 255..12000 empty candidates with a wrong checksum); oracle: next_msg_frame == reference scanner (consumed, presence, exact byte range), consumed<=len, every \
         skipped 0xD3 is a complete wrong-CRC candidate, MsgFrameIter yields the reference frame list/consumed total and terminates, every frame it hands out has the attributes (number, payload, checksum, decoded message) of its own bytes parsed alone, and nth/skip/step_by/count/last/size_hint/fold/for_each/find/position/take/peekable/enumerate+filter agree with it, and so do mixed call sequences on one iterator (next, nth(k), size_hint, consumed, take(k).count(), peek, size_hint followed by nth) against a model that only holds the reference frame list; frames whose checksum is a special value (0x000000, 0xFFFFFF, 0xD30000, ...) are included. \
         non-trivial = >=2 segment kinds and a 0xD3 before the delivered frame or an incomplete candidate; distinct = hash of the buffer"
            .to_string()
    } else {
        "C05 streams x chunk schedules {one-byte chunks, random cut positions incl. duplicates (empty chunks), cuts forced at \
         preamble/length/payload/checksum offsets of 0xD3 candidates}, plus streams of 66-150 KB fed in small chunks, in 64 KiB chunks and at once, and noisy stretches (as in C05: hundreds of rejected candidates, more than 64 KiB of rejected candidate bytes) between valid frames fed in random pieces, 4 KiB pieces and with cuts at the first valid frame after the noise; oracle (model-based history): two caller loops (append chunk; either call next_msg_frame until \
         no frame or run a MsgFrameIter and use consumed(); drop the consumed bytes) gives the same delivered frames (bytes, message number, decoded message) and total consumed as one-shot scanning and as the reference model. \
         non-trivial = >=1 cut strictly inside a frame that is delivered; distinct = hash of (stream, cuts)"
            .to_string()
    };
    let assumptions = vec!["reference scanner is a transcription of the C05 statement with an own CRC-24Q".to_string()];
    if let Some(case) = replay {
        let s = unhex(case["bytes"].as_str().unwrap_or("")).unwrap_or_default();
        let mut ev = Evidence::new();
        ev.eval();
        let r = if chunked {
            let cuts: Vec<usize> = case["cuts"].as_array().map(|a| a.iter().filter_map(|x| x.as_u64()).map(|x| x as usize).collect()).unwrap_or_default();
            catch(|| oracle_chunks(&s, &cuts))
        } else {
            catch(|| oracle_scan(&s))
        };
        let mut vs = Vec::new();
        let r = match r {
            Ok(r) => r,
            Err(p) => Err((panic_signature(&p), format!("panic: {}", p))),
        };
        if let Err((sig, msg)) = r {
            vs.push(Violation { property: ctx.prop.clone(), signature: sig, message: msg, case: case.clone() });
        }
        return CheckResult { evidence: ev, rule, assumptions, violations: vs };
    }
    if !chunked {
        let cases = ctx.n(2_000_000, 200_000_000);
        let (ev, vs) = pt_run(
            ctx,
            "c05",
            cases,
            || prop::collection::vec(seg_strategy(), 0..7),
            |segs: &Vec<Seg>, ev| {
                let buf = build_stream(segs);
                let r = oracle_scan(&buf);
                if let (Ok(()), Some(ev)) = (&r, ev) {
                    let mut kinds: Vec<&str> = segs.iter().map(seg_kind).collect();
                    kinds.sort();
                    kinds.dedup();
                    let (_, rf) = ref_scan(&buf);
                    let first_d3 = buf.iter().position(|b| *b == 0xD3);
                    let nontrivial = kinds.len() >= 2
                        && match (rf, first_d3) {
                            (Some((a, _)), Some(p)) => p < a,
                            (None, Some(_)) => true,
                            _ => false,
                        };
                    for k in &kinds {
                        ev.class(&format!("seg/{}", k));
                    }
                    ev.class(match rf {
                        Some((0, _)) => "result/frame-at-0",
                        Some(_) => "result/frame-after-skip",
                        None => "result/no-frame",
                    });
                    let (fr, _) = ref_scan_all(&buf);
                    ev.class(&format!("frames-in-stream/{}", fr.len().min(4)));
                    if nontrivial {
                        ev.nontrivial_bytes(&buf);
                        if ev.want_sample() && fr.len() >= 1 {
                            ev.sample(json!({"segments":kinds,"len":buf.len(),"bytes_prefix":hex(&buf[..buf.len().min(48)]),"frames":fr}));
                        }
                    }
                }
                r
            },
            |segs| json!({"kind":"stream","bytes":hex(&build_stream(segs)),"segments":segs.iter().map(seg_kind).collect::<Vec<_>>()}),
        );
        let (mut ev, mut vs) = (ev, vs);
        // enumerator: every (reserved bits, length) header pattern as a valid frame at offset 0..2 of a buffer that continues
        // with more than a maximum-length frame of other data (another frame, 0xD3 bytes, garbage)
        use rayon::prelude::*;
        let parts: Vec<(Evidence, Vec<Violation>)> = (0..1024usize)
            .into_par_iter()
            .map(|l| {
                let mut ev = Evidence::new();
                let mut vs = Vec::new();
                let mut rng = ctx.rng("c05-headers", l as u64);
                let p = rng.bytes(l);
                let other = crate::pool::random_frame(&mut rng, 40, true);
                for r in 0..64u8 {
                    let f = frame_with_reserved(&p, r);
                    let mut buf: Vec<u8> = Vec::with_capacity(2200);
                    match (l + r as usize) % 3 {
                        0 => {}
                        1 => buf.push(0x55),
                        _ => buf.extend_from_slice(&[0xD3, 0x00]),
                    }
                    buf.extend_from_slice(&f);
                    match r % 4 {
                        0 => buf.extend_from_slice(&other),
                        1 => buf.extend(std::iter::repeat(0xD3u8).take(8)),
                        2 => buf.extend(rng.bytes(16)),
                        _ => {}
                    }
                    let fill = rng.bytes(1100);
                    buf.extend_from_slice(&fill);
                    ev.evaluations += 1;
                    match oracle_scan(&buf) {
                        Ok(()) => {
                            ev.distinct_by_construction += 1;
                        }
                        Err((sig, msg)) => {
                            if vs.is_empty() {
                                vs.push(Violation { property: "C05".into(), signature: sig, message: msg, case: json!({"kind":"stream","bytes":hex(&buf),"segments":["all-header-patterns"]}) });
                            }
                        }
                    }
                }
                (ev, vs)
            })
            .collect();
        for (e, v) in parts {
            ev.merge(e);
            for x in v {
                if !vs.iter().any(|y: &Violation| y.signature == x.signature) {
                    vs.push(x);
                }
            }
        }
        ev.class_n("enumerated/all-65536-header-patterns-in-long-buffers", 65536);
        // frames whose checksum has a special value (0x000000, 0xFFFFFF, 0xD30000, ...), alone, after garbage and in a row
        {
            let mut rng = ctx.rng("c05-special-crc", 0);
            for (k, target) in crate::pool::SPECIAL_CRCS.iter().enumerate() {
                for l in [3usize, 4, 17, 100, 1023] {
                    let f = crate::pool::frame_with_crc(&mut rng, l, if k % 2 == 0 { 0 } else { 33 }, *target);
                    let other = crate::pool::random_frame(&mut rng, 12, false);
                    for variant in 0..3 {
                        let mut buf: Vec<u8> = Vec::new();
                        match variant {
                            0 => buf.extend_from_slice(&f),
                            1 => {
                                buf.extend_from_slice(&[0x11, 0xD3, 0x22]);
                                buf.extend_from_slice(&f);
                                buf.extend_from_slice(&other);
                            }
                            _ => {
                                buf.extend_from_slice(&other);
                                buf.extend_from_slice(&f);
                                buf.extend_from_slice(&f);
                            }
                        }
                        ev.evaluations += 1;
                        match oracle_scan(&buf) {
                            Ok(()) => {
                                ev.distinct_by_construction += 1;
                                ev.class("frames-with-special-checksum-values");
                            }
                            Err((sig, msg)) => {
                                if !vs.iter().any(|y: &Violation| y.signature == sig) {
                                    vs.push(Violation { property: "C05".into(), signature: sig, message: format!("frame with checksum {:06x}: {}", target, msg), case: json!({"kind":"stream","bytes":hex(&buf),"segments":["special-crc"]}) });
                                }
                            }
                        }
                    }
                }
            }
        }
        // long streams: more than 64 KiB / 128 KiB of back-to-back frames with some garbage in between
        let longs: Vec<(Evidence, Vec<Violation>)> = (0..ctx.n(12, 200) as usize)
            .into_par_iter()
            .map(|i| {
                let mut ev = Evidence::new();
                let mut vs = Vec::new();
                let mut rng = ctx.rng("c05-long", i as u64);
                let target = [66_000usize, 70_000, 131_500, 200_000][i % 4];
                let mut buf: Vec<u8> = Vec::with_capacity(target + 1100);
                while buf.len() < target {
                    let l = match rng.below(4) { 0 => rng.below(1024) as usize, 1 => 0, _ => rng.below(120) as usize };
                    let rb = rng_bool(&mut rng);
                    buf.extend(crate::pool::random_frame(&mut rng, l, rb));
                    if rng.below(5) == 0 {
                        let g = rng.bytes_len(1, 9);
                        buf.extend(g);
                    }
                }
                // exact total lengths around the 2^16 wrap points
                if i % 3 == 0 {
                    let t = if target < 100_000 { 65_536 + (i % 7) } else { 131_072 + (i % 7) };
                    buf.truncate(t.max(1));
                }
                ev.evaluations += 1;
                match oracle_scan(&buf) {
                    Ok(()) => ev.nontrivial_bytes(&buf[..64.min(buf.len())]),
                    Err((sig, msg)) => vs.push(Violation { property: "C05".into(), signature: sig, message: format!("stream of {} bytes: {}", buf.len(), msg), case: json!({"kind":"stream","bytes":hex(&buf),"segments":["long-stream"]}) }),
                }
                (ev, vs)
            })
            .collect();
        for (e, v) in longs {
            ev.merge(e);
            for x in v {
                if !vs.iter().any(|y: &Violation| y.signature == x.signature) {
                    vs.push(x);
                }
            }
        }
        ev.class_n("long-streams(>64KiB)", ctx.n(12, 200));
        // noisy stretches (hundreds of rejected candidates / more than 64 KiB of rejected candidate bytes in one call)
        let reps = ctx.n(1, 6) as usize;
        let jobs: Vec<(usize, usize, usize)> = (0..6).flat_map(|k| (0..6).flat_map(move |z| (0..reps).map(move |r| (k, z, r)))).filter(|(k, z, _)| ctx.tier == Tier::Thorough || !(*k == 2 && *z == 5)).collect();
        let noisy: Vec<(Evidence, Vec<Violation>)> = jobs
            .par_iter()
            .map(|(k, z, r)| {
                let mut ev = Evidence::new();
                ev.sample_cap = 0;
                let mut vs = Vec::new();
                let mut rng = ctx.rng("c05-noisy", (*k * 100 + *z * 10 + *r) as u64);
                let (buf, label) = noisy_stream(&mut rng, *k, *z);
                ev.evaluations += 1;
                match catch(|| oracle_scan_with(&buf, buf.len() < 20_000)) {
                    Ok(Ok(())) => {
                        ev.nontrivial_hash(hash_u64s(&[*k as u64, *z as u64, *r as u64, buf.len() as u64]));
                        ev.class(label);
                    }
                    Ok(Err((sig, msg))) => vs.push(Violation { property: "C05".into(), signature: sig, message: format!("{} ({} bytes): {}", label, buf.len(), msg), case: json!({"kind":"stream","bytes":hex(&buf),"segments":[label]}) }),
                    Err(p) => vs.push(Violation { property: "C05".into(), signature: panic_signature(&p), message: format!("{}: panic: {}", label, p), case: json!({"kind":"stream","bytes":hex(&buf),"segments":[label]}) }),
                }
                (ev, vs)
            })
            .collect();
        for (e, v) in noisy {
            ev.merge(e);
            for x in v {
                if !vs.iter().any(|y: &Violation| y.signature == x.signature) {
                    vs.push(x);
                }
            }
        }
        return CheckResult { evidence: ev, rule, assumptions, violations: vs };
    }
    let cases = ctx.n(1_000_000, 150_000_000);
    let strat = || {
        (
            prop::collection::vec(seg_strategy(), 1..7),
            prop::collection::vec(any::<u16>(), 0..10),
            prop::collection::vec((any::<u16>(), any::<u16>()), 0..6),
            prop::bool::weighted(0.15),
        )
            .prop_map(|(segs, fracs, near, one_byte)| ChunkCase { segs, fracs, near, one_byte })
    };
    let (ev, vs) = pt_run(
        ctx,
        "c06",
        cases,
        strat,
        |case: &ChunkCase, ev| {
            let stream = build_stream(&case.segs);
            let cuts = cuts_of(case, &stream);
            let r = oracle_chunks(&stream, &cuts);
            if let (Ok(()), Some(ev)) = (&r, ev) {
                let (fr, _) = ref_scan_all(&stream);
                let inside = cuts.iter().any(|c| fr.iter().any(|(a, b)| a < c && c < b));
                ev.class(if case.one_byte { "schedule/one-byte" } else { "schedule/cuts" });
                ev.class(&format!("frames-delivered/{}", fr.len().min(4)));
                if cuts.windows(2).any(|w| w[0] == w[1]) {
                    ev.class("schedule/has-empty-chunk");
                }
                if inside {
                    ev.class("cut-inside-delivered-frame");
                    let mut key = stream.clone();
                    for c in &cuts {
                        key.extend_from_slice(&(*c as u32).to_le_bytes());
                    }
                    ev.nontrivial_bytes(&key);
                    if ev.want_sample() && !case.one_byte {
                        ev.sample(json!({"stream_len":stream.len(),"cuts":cuts,"frames":fr,"bytes_prefix":hex(&stream[..stream.len().min(40)])}));
                    }
                }
            }
            r
        },
        |case| {
            let stream = build_stream(&case.segs);
            let cuts = cuts_of(case, &stream);
            json!({"kind":"chunked-stream","bytes":hex(&stream),"cuts":cuts})
        },
    );
    let (mut ev, mut vs) = (ev, vs);
    // long streams (> 64 KiB) fed in chunks of a few KiB, in 64 KiB chunks and at once
    for i in 0..ctx.n(8, 100) {
        let mut rng = ctx.rng("c06-long", i);
        let target = [66_000usize, 131_500, 150_000][(i % 3) as usize];
        let mut stream: Vec<u8> = Vec::with_capacity(target + 1100);
        while stream.len() < target {
            let l = match rng.below(4) { 0 => rng.below(1024) as usize, _ => rng.below(100) as usize };
            let r = rng_bool(&mut rng);
            stream.extend(crate::pool::random_frame(&mut rng, l, r));
            if rng.below(6) == 0 {
                let g = rng.bytes_len(1, 7);
                stream.extend(g);
            }
        }
        let mut cuts: Vec<usize> = Vec::new();
        match i % 3 {
            0 => {
                let mut c = 0;
                while c < stream.len() {
                    c += 1 + rng.below(4096) as usize;
                    cuts.push(c.min(stream.len()));
                }
            }
            1 => cuts = vec![65_536.min(stream.len()), 65_537.min(stream.len())],
            _ => cuts = vec![stream.len() / 2],
        }
        ev.evaluations += 1;
        match oracle_chunks(&stream, &cuts) {
            Ok(()) => {
                ev.class("long-stream(>64KiB)");
                ev.nontrivial_bytes(&stream[..64]);
            }
            Err((sig, msg)) => {
                if !vs.iter().any(|y: &Violation| y.signature == sig) {
                    vs.push(Violation { property: "C06".into(), signature: sig, message: format!("stream of {} bytes, {} cuts: {}", stream.len(), cuts.len(), msg), case: json!({"kind":"chunked-stream","bytes":hex(&stream),"cuts":cuts}) });
                }
            }
        }
    }
    // noisy stretches fed in one piece, in a few random pieces, in 4 KiB pieces and with a cut just before the valid
    // frames that follow the noise
    {
        use rayon::prelude::*;
        let reps = ctx.n(1, 4) as usize;
        let jobs: Vec<(usize, usize, usize)> = (0..6).flat_map(|k| (0..6).flat_map(move |z| (0..reps).map(move |r| (k, z, r)))).filter(|(k, z, _)| ctx.tier == Tier::Thorough || !(*k == 2 && *z == 5)).collect();
        let noisy: Vec<(Evidence, Vec<Violation>)> = jobs
            .par_iter()
            .map(|(k, z, r)| {
                let mut ev = Evidence::new();
                ev.sample_cap = 0;
                let mut vs = Vec::new();
                let mut rng = ctx.rng("c06-noisy", (*k * 100 + *z * 10 + *r) as u64);
                let (stream, label) = noisy_stream(&mut rng, *k, *z);
                let (fr, _) = ref_scan_all(&stream);
                for sched in 0..3 {
                    let mut cuts: Vec<usize> = Vec::new();
                    match sched {
                        0 => {
                            for _ in 0..1 + rng.below(4) {
                                cuts.push(rng.below(stream.len() as u64 + 1) as usize);
                            }
                        }
                        1 => {
                            let mut c = 4096;
                            while c < stream.len() {
                                cuts.push(c);
                                c += 4096;
                            }
                        }
                        _ => {
                            // at, just before and just inside the first valid frame after the noise
                            if let Some((a, _)) = fr.iter().find(|(a, _)| *a > stream.len() / 4) {
                                cuts.extend([a.saturating_sub(1), *a, (*a + 1).min(stream.len())]);
                            }
                        }
                    }
                    cuts.sort();
                    ev.evaluations += 1;
                    match catch(|| oracle_chunks(&stream, &cuts)) {
                        Ok(Ok(())) => {
                            ev.nontrivial_hash(hash_u64s(&[*k as u64, *z as u64, *r as u64, sched as u64, stream.len() as u64]));
                            ev.class(label);
                        }
                        Ok(Err((sig, msg))) => {
                            if vs.is_empty() {
                                vs.push(Violation { property: "C06".into(), signature: sig, message: format!("{} ({} bytes, {} cuts): {}", label, stream.len(), cuts.len(), msg), case: json!({"kind":"chunked-stream","bytes":hex(&stream),"cuts":cuts}) });
                            }
                        }
                        Err(p) => {
                            if vs.is_empty() {
                                vs.push(Violation { property: "C06".into(), signature: panic_signature(&p), message: format!("{}: panic: {}", label, p), case: json!({"kind":"chunked-stream","bytes":hex(&stream),"cuts":cuts}) });
                            }
                        }
                    }
                }
                (ev, vs)
            })
            .collect();
        for (e, v) in noisy {
            ev.merge(e);
            for x in v {
                if !vs.iter().any(|y: &Violation| y.signature == x.signature) {
                    vs.push(x);
                }
            }
        }
    }
    CheckResult { evidence: ev, rule, assumptions, violations: vs }
}
