//! C10 — MSM satellite, signal and cell masks follow the standard for any input order.
use crate::bits::{hex, unhex};
use crate::frame::frame;
use crate::infra::*;
use crate::msggen::{self, corpus, decode_frame, value_to_message, TypeCorpus};
use crate::msm::{self, read_wire, Cons, MsmSpec};
use crate::value::Value;
use rayon::prelude::*;
use rtcm_rs::prelude::*;
use serde_json::{json, Value as J};

pub fn spec_json(s: &MsmSpec, perm_seed: u64) -> J {
    json!({"kind":"msm-spec","number":s.number(),"header":s.header,"sats":s.sats,"sigs":s.sigs,"cells":s.cells,"sat_data":s.sat_data,"sig_data":s.sig_data,"perm_seed":perm_seed})
}
fn spec_from_json(c: &J) -> Option<(MsmSpec, u64)> {
    let (cons, level) = Cons::of_number(c["number"].as_u64()? as u16)?;
    let u8s = |k: &str| -> Option<Vec<u8>> { Some(c[k].as_array()?.iter().filter_map(|x| x.as_u64()).map(|x| x as u8).collect()) };
    let cols = |k: &str| -> Option<Vec<Vec<u64>>> { Some(c[k].as_array()?.iter().map(|col| col.as_array().map(|a| a.iter().filter_map(|x| x.as_u64()).collect()).unwrap_or_default()).collect()) };
    Some((
        MsmSpec {
            cons,
            level,
            header: c["header"].as_u64()?,
            sats: u8s("sats")?,
            sigs: u8s("sigs")?,
            cells: c["cells"].as_array()?.iter().map(|x| x.as_bool().unwrap_or(false)).collect(),
            sat_data: cols("sat_data")?,
            sig_data: cols("sig_data")?,
        },
        c["perm_seed"].as_u64().unwrap_or(0),
    ))
}

/// the main oracle: synthesise the canonical frame of the spec, decode it, permute the decoded lists, re-encode
pub fn oracle_spec(spec: &MsmSpec, perm_seed: u64) -> Result<&'static str, (String, String)> {
    let n = spec.number();
    let r = catch(|| -> Result<&'static str, (String, String)> {
        let p0 = spec.synth();
        if p0.len() > 1023 {
            return Ok("too-long");
        }
        let f0 = frame(&p0);
        let m0 = decode_frame(&f0).ok_or_else(|| ("c10:harness".to_string(), "own frame rejected".to_string()))?;
        let name = crate::registry::variant_name(&m0);
        if name != format!("Msg{}", n) {
            return Err((format!("c10:{}:canonical-frame-decodes-to-{}", spec.cons.name(), name), format!("{}: a frame laid out per the standard ({} satellites x {} signals, {} cells) decodes to {}", n, spec.sats.len(), spec.sigs.len(), spec.ncells(), name)));
        }
        let t0 = msggen::message_to_value(&m0);
        // decoding returns the same sets in that order
        let srows = msm::msm_list(&t0, "satellite_data").ok_or_else(|| ("c10:harness".to_string(), "no satellite_data".to_string()))?;
        let crows = msm::msm_list(&t0, "signal_data").ok_or_else(|| ("c10:harness".to_string(), "no signal_data".to_string()))?;
        let dec_sats: Vec<u8> = srows.iter().filter_map(msm::row_sat).collect();
        if dec_sats != spec.sats {
            return Err((format!("c10:{}:decoded-satellites", spec.cons.name()), format!("{}: satellite mask {:?} decodes to satellites {:?}", n, spec.sats, dec_sats)));
        }
        let want_cells: Vec<(u8, (u8, char))> = spec.cell_list().iter().map(|(s, g)| (*s, spec.cons.desc_of(*g).unwrap_or((0, '?')))).collect();
        let dec_cells: Vec<(u8, (u8, char))> = crows.iter().filter_map(|r| Some((msm::row_sat(r)?, msm::row_sig(r)?))).collect();
        if dec_cells != want_cells {
            return Err((format!("c10:{}:decoded-cells", spec.cons.name()), format!("{}: cell mask decodes to {:?}, expected {:?}", n, dec_cells.iter().take(8).collect::<Vec<_>>(), want_cells.iter().take(8).collect::<Vec<_>>())));
        }
        // permute both lists and re-encode: identical frame whatever the order
        let mut rng = crate::rng::Rng::new(perm_seed);
        let mut t1 = t0.clone();
        let reordered;
        {
            let s = msm::msm_list_mut(&mut t1, "satellite_data").unwrap();
            let before = s.clone();
            rng.shuffle(s);
            let c = msm::msm_list_mut(&mut t1, "signal_data").unwrap();
            let before_c = c.clone();
            match perm_seed % 3 {
                0 => rng.shuffle(c),
                1 => c.reverse(),
                _ => {
                    // signal-major order (a natural way for a caller to list cells)
                    c.sort_by_key(|r| (msm::row_sig(r).map(|d| (d.0, d.1 as u32)), msm::row_sat(r)));
                }
            }
            reordered = *msm::msm_list(&t1, "satellite_data").unwrap() != before || *msm::msm_list(&t1, "signal_data").unwrap() != before_c;
        }
        let m1 = value_to_message(&t1).map_err(|e| ("c10:harness".to_string(), e))?;
        let f1 = msggen::build(&m1).map_err(|e| (format!("c10:{}:admissible-refused", spec.cons.name()), format!("{}: admissible input ({} satellites x {} signals, {} cells) refused: {}", n, spec.sats.len(), spec.sigs.len(), spec.ncells(), e)))?;
        if f1 != f0 {
            let w = read_wire(&f1[3..f1.len() - 3], spec.level);
            let what = match &w {
                None => "frame too short for its own masks".to_string(),
                Some(w) => {
                    if w.sat_mask != spec.sat_mask() {
                        format!("satellite mask {:#018x}, expected {:#018x}", w.sat_mask, spec.sat_mask())
                    } else if w.sig_mask != spec.sig_mask() {
                        format!("signal mask {:#010x}, expected {:#010x}", w.sig_mask, spec.sig_mask())
                    } else if w.cells != spec.cells {
                        "cell mask is not the row-major S x G incidence".to_string()
                    } else if w.sat_data != spec.sat_data {
                        let col = w.sat_data.iter().zip(spec.sat_data.iter()).position(|(a, b)| a != b).unwrap_or(0);
                        format!("satellite data column {} is not in ascending satellite order", col)
                    } else if w.sig_data != spec.sig_data {
                        let col = w.sig_data.iter().zip(spec.sig_data.iter()).position(|(a, b)| a != b).unwrap_or(0);
                        format!("signal data column {} is not in (satellite, signal position) order", col)
                    } else if w.header != spec.header {
                        "header bits differ".to_string()
                    } else {
                        "padding / length differs".to_string()
                    }
                }
            };
            return Err((
                format!("c10:{}:frame-depends-on-order", spec.cons.name()),
                format!("{}: lists given in another order ({} satellites, {} cells) encode to a different frame than the standard layout: {}", n, spec.sats.len(), spec.ncells(), what),
            ));
        }
        // off-grid data: masks and structure unchanged
        let mut t2 = t1.clone();
        let mut all = Vec::new();
        t1.walk(&mut Vec::new(), &mut all);
        for (path, node) in all {
            match node {
                Value::F32(x) if x.is_finite() => *t2.get_mut(&path).unwrap() = Value::F32(*x * 1.000001 + 1e-7),
                Value::F64(x) if x.is_finite() => *t2.get_mut(&path).unwrap() = Value::F64(*x * 1.0000000001 + 1e-11),
                _ => {}
            }
        }
        if let Ok(m2) = value_to_message(&t2) {
            if let Ok(f2) = msggen::build(&m2) {
                match read_wire(&f2[3..f2.len() - 3], spec.level) {
                    Some(w) if w.sat_mask == spec.sat_mask() && w.sig_mask == spec.sig_mask() && w.cells == spec.cells && f2.len() == f0.len() => {}
                    _ => return Err((format!("c10:{}:masks-depend-on-data", spec.cons.name()), format!("{}: off-grid data values changed the masks or the frame length", n))),
                }
            }
        }
        Ok(if reordered { "reordered" } else { "canonical-order" })
    });
    match r {
        Ok(x) => x,
        Err(p) => Err((panic_signature(&p), format!("{}: panic: {}", n, p))),
    }
}

#[derive(Clone, Copy, Debug, PartialEq)]
pub enum Defect {
    Sat0,
    Sat65,
    Sat255,
    UnknownSignal,
    DuplicateSatellite,
    DuplicateCell,
    SatelliteWithoutCells,
    CellsWithoutSatellite,
    SatelliteSetMismatch,
    TooManyCells,
    Empty,
}
pub const DEFECTS: &[Defect] = &[
    Defect::Sat0, Defect::Sat65, Defect::Sat255, Defect::UnknownSignal, Defect::DuplicateSatellite, Defect::DuplicateCell, Defect::SatelliteWithoutCells, Defect::CellsWithoutSatellite,
    Defect::SatelliteSetMismatch, Defect::TooManyCells, Defect::Empty,
];
fn defect_name(d: Defect) -> &'static str {
    match d {
        Defect::Sat0 => "satellite-0",
        Defect::Sat65 => "satellite-65",
        Defect::Sat255 => "satellite-255",
        Defect::UnknownSignal => "unrecognised-signal",
        Defect::DuplicateSatellite => "duplicate-satellite",
        Defect::DuplicateCell => "duplicate-cell",
        Defect::SatelliteWithoutCells => "satellite-row-without-cells",
        Defect::CellsWithoutSatellite => "cells-without-satellite-row",
        Defect::SatelliteSetMismatch => "same-count-different-satellite-sets",
        Defect::TooManyCells => "more-than-64-mask-cells",
        Defect::Empty => "empty-segment",
    }
}

/// input with exactly one defect => the matching error
pub fn oracle_defect(tc: &TypeCorpus, cons: Cons, d: Defect, seed: u64) -> Result<(), (String, String)> {
    let n = tc.number;
    let mut rng = crate::rng::Rng::new(seed);
    let table = cons.table();
    // a valid starting point: small, or (one time in three, for the defects that keep the list lengths) a full matrix of
    // exactly 64 cells such as 32x2, 16x4, 8x8
    let full_ok = matches!(d, Defect::Sat0 | Defect::Sat65 | Defect::Sat255 | Defect::UnknownSignal | Defect::DuplicateCell) && table.len() >= 2;
    let (ng, ns) = if full_ok && rng.below(3) == 0 {
        let opts: Vec<usize> = [2usize, 4, 8, 16].iter().copied().filter(|g| *g <= table.len()).collect();
        let ng = opts[rng.below(opts.len() as u64) as usize];
        (ng, 64 / ng)
    } else {
        let ng = 1 + rng.below(table.len().min(4) as u64) as usize;
        (ng, 2 + rng.below((64 / ng).min(12) as u64 - 1) as usize)
    };
    let mut sats: Vec<u8> = (1..=64).collect();
    rng.shuffle(&mut sats);
    sats.truncate(ns);
    let mut gi: Vec<usize> = (0..table.len()).collect();
    rng.shuffle(&mut gi);
    gi.truncate(ng);
    let mut cells: Vec<(u8, (u8, char))> = Vec::new();
    for s in &sats {
        for g in &gi {
            cells.push((*s, (table[*g].1, table[*g].2)));
        }
    }
    let want: &str;
    match d {
        Defect::Sat0 | Defect::Sat65 | Defect::Sat255 => {
            let bad = match d {
                Defect::Sat0 => 0,
                Defect::Sat65 => 65,
                _ => 255,
            };
            let old = sats[0];
            sats[0] = bad;
            for c in cells.iter_mut() {
                if c.0 == old {
                    c.0 = bad;
                }
            }
            want = "InvalidSatelliteId";
        }
        Defect::UnknownSignal => {
            let old = cells[0].1;
            let bad = if rng.below(2) == 0 {
                [(9u8, 'q'), (1, 'c'), (0, 'C'), (1, '\u{0}'), (3, 'C')][rng.below(5) as usize]
            } else {
                // a near miss of a recognised descriptor: band +-1/+-2, attribute code point +- 2^j or bit j flipped (j = 0..20)
                let t = table[rng.below(table.len() as u64) as usize];
                let j = rng.below(21) as u32;
                let cp = match rng.below(3) {
                    0 => (t.2 as u32).wrapping_add(1 << j),
                    1 => (t.2 as u32) ^ (1 << j),
                    _ => t.2 as u32,
                };
                let band = match rng.below(4) {
                    0 => t.1,
                    1 => t.1.wrapping_add(1),
                    2 => t.1.wrapping_sub(1),
                    _ => t.1.wrapping_add(2),
                };
                (band, char::from_u32(cp).unwrap_or('q'))
            };
            let bad = if cons.pos_of(bad.0, bad.1).is_some() { (200u8, 'C') } else { bad };
            for c in cells.iter_mut() {
                if c.1 == old {
                    c.1 = bad;
                }
            }
            want = "InvalidSignalId";
        }
        Defect::DuplicateSatellite => {
            let s = sats[rng.below(sats.len() as u64) as usize];
            sats.push(s);
            want = "DuplicateSatellite";
        }
        Defect::DuplicateCell => {
            let k = rng.below(cells.len() as u64) as usize;
            let c = cells[k];
            if cells.len() >= 64 || (ng >= 2 && rng.below(2) == 0) {
                // a copy written over another row (the list keeps its length; with ng >= 2 and ns >= 2 every satellite
                // and signal is still used by some other cell, so the duplicate is the only defect)
                let mut j = rng.below(cells.len() as u64) as usize;
                if j == k {
                    j = (j + 1) % cells.len();
                }
                cells[j] = c;
            } else {
                cells.push(c);
            }
            want = "DuplicateSatelliteSignal";
        }
        Defect::SatelliteWithoutCells => {
            let mut extra = 1u8;
            while sats.contains(&extra) {
                extra += 1;
            }
            sats.push(extra);
            want = "SatelliteMismatch";
        }
        Defect::CellsWithoutSatellite => {
            let gone = sats.remove(0);
            let _ = gone;
            want = "SatelliteMismatch";
        }
        Defect::SatelliteSetMismatch => {
            // as many satellite rows as satellites named by the cells, but one row names another satellite
            let k = rng.below(sats.len() as u64) as usize;
            let mut other = 1u8 + rng.below(64) as u8;
            while sats.contains(&other) {
                other = other % 64 + 1;
            }
            sats[k] = other;
            want = "SatelliteMismatch";
        }
        Defect::TooManyCells => {
            // every satellite and signal used, at most 64 rows in each list, but |S| x |G| > 64
            // |G| anywhere up to the whole table, |S| either just above 64/|G| or anywhere up to 64: products from 65 to
            // 64 x |table| (a count kept in 8 bits wraps at 256)
            let ng2 = if rng.below(2) == 0 { table.len().min(2 + rng.below(6) as usize).max(2) } else { 2 + rng.below(table.len() as u64 - 1) as usize };
            if ng2 < 2 || ng2 > table.len() {
                return Ok(());
            }
            let lo = (64 / ng2 + 1).max(ng2);
            let ns2 = if rng.below(2) == 0 { (lo + rng.below(8) as usize).min(64) } else { lo + rng.below((64 - lo + 1) as u64) as usize };
            sats = (1..=64).collect();
            rng.shuffle(&mut sats);
            sats.truncate(ns2);
            gi = (0..table.len()).collect();
            rng.shuffle(&mut gi);
            gi.truncate(ng2);
            cells.clear();
            for (i, s) in sats.iter().enumerate() {
                let g = gi[i % ng2];
                cells.push((*s, (table[g].1, table[g].2)));
            }
            if sats.len() * ng2 <= 64 {
                return Ok(());
            }
            want = "InvalidSatelliteSignalCount";
        }
        Defect::Empty => {
            sats.clear();
            cells.clear();
            want = "Ok";
        }
    }
    rng.shuffle(&mut cells);
    rng.shuffle(&mut sats);
    let tree = msggen::msm_value(tc, &sats, &cells).ok_or_else(|| ("c10:harness".to_string(), "no templates".to_string()))?;
    let m = value_to_message(&tree).map_err(|e| ("c10:harness".to_string(), e))?;
    let r = catch(|| {
        let mut b = MessageBuilder::new();
        b.build_message(&m).map(|f| f.to_vec()).map_err(|e| format!("{:?}", e))
    });
    let r = match r {
        Ok(r) => r,
        Err(p) => return Err((panic_signature(&p), format!("{}: panic for input with defect {}: {}", n, defect_name(d), p))),
    };
    match (&r, want) {
        (Ok(f), "Ok") => {
            // empty segment: zero masks, no cell mask; decodes to empty lists
            let p = &f[3..f.len() - 3];
            let w = read_wire(p, Cons::of_number(n).unwrap().1);
            match w {
                Some(w) if w.sat_mask == 0 && w.sig_mask == 0 && w.total_bits == msm::CELL_MASK_AT => {}
                _ => return Err((format!("c10:{}:empty-segment", cons.name()), format!("{}: empty data segment is not encoded as zero masks", n))),
            }
            match decode_frame(f) {
                Some(back) if back == m => Ok(()),
                _ => Err((format!("c10:{}:empty-segment", cons.name()), format!("{}: empty data segment does not round trip", n))),
            }
        }
        (Err(e), w) if e == w => Ok(()),
        (Err(e), w) => Err((format!("c10:{}:{}:wrong-error", cons.name(), defect_name(d)), format!("{}: input with defect '{}' refused with {} (expected {})", n, defect_name(d), e, w))),
        (Ok(_), w) => Err((format!("c10:{}:{}:accepted", cons.name(), defect_name(d)), format!("{}: input with defect '{}' was encoded (expected {})", n, defect_name(d), w))),
    }
}

pub fn run(ctx: &Ctx, replay: Option<&J>) -> CheckResult {
    let rule = "all MSM types present (7 constellations x MSM1-7) x admissible (S,G,C): exhaustive small scopes (S subset of {1,2,33,64} with |S|<=2, G = 1..2 of the first three signals, every \
        covering C) and random shapes up to 64 cells (1x|G| ... 64x1, full and sparse incidence) with random raw data patterns. For each: the frame laid out bit by bit per the standard \
        (own model: mask positions from the pinned signal table, row-major cell mask, column-wise data) must decode to S ascending and C in (satellite, signal position) order; the decoded lists \
        are permuted (random / reversed / signal-major) and re-encoded: the frame must equal the standard layout byte for byte (masks, row order, data), also with off-grid data the masks must not \
        change. Invalid inputs with exactly one defect {satellite 0/65/255, unrecognised signal, duplicate satellite, duplicate cell, satellite row without cells, cells without satellite row, equally many rows and cell satellites but different sets, \
        >64 mask cells} must be refused with exactly the matching error; the empty segment encodes as zero masks. non-trivial = |C|>=2 and input order != canonical, or an invalid-class input; \
        distinct = hash(spec, permutation)"
        .to_string();
    let assumptions = vec![
        "MSM layouts (header 73 bits to the satellite mask, column widths per MSM level) and signal tables typed from RTCM 10403.3 in the harness (msm.rs)".to_string(),
        "single-defect inputs only, so error precedence cannot cause a false alarm".to_string(),
    ];
    let corp = corpus(ctx.seed);
    if let Some(c) = replay {
        let mut ev = Evidence::new();
        ev.eval();
        let mut vs = Vec::new();
        if c["kind"] == "msm-spec" {
            if let Some((spec, ps)) = spec_from_json(c) {
                if let Err((sig, msg)) = oracle_spec(&spec, ps) {
                    vs.push(Violation { property: "C10".into(), signature: sig, message: msg, case: c.clone() });
                }
            }
        } else if c["kind"] == "msm-defect" {
            let number = c["number"].as_u64().unwrap_or(0) as u16;
            let d = DEFECTS.iter().copied().find(|d| defect_name(*d) == c["defect"].as_str().unwrap_or("")).unwrap_or(Defect::Sat0);
            if let (Some(tc), Some((cons, _))) = (corp.of(number), Cons::of_number(number)) {
                if let Err((sig, msg)) = oracle_defect(tc, cons, d, c["seed"].as_u64().unwrap_or(0)) {
                    vs.push(Violation { property: "C10".into(), signature: sig, message: msg, case: c.clone() });
                }
            }
        }
        let _ = unhex("");
        return CheckResult { evidence: ev, rule, assumptions, violations: vs };
    }
    let per_type = ctx.n(10_000, 300_000);
    let msm_types: Vec<&TypeCorpus> = corp.types.iter().filter(|t| Cons::of_number(t.number).is_some()).collect();
    let parts: Vec<(Evidence, Vec<Violation>)> = msm_types
        .par_iter()
        .map(|tc| {
            let (cons, level) = Cons::of_number(tc.number).unwrap();
            let mut ev = Evidence::new();
            ev.sample_cap = 1;
            let mut vs: Vec<Violation> = Vec::new();
            let mut rng = ctx.rng("c10", tc.number as u64);
            let mut push = |vs: &mut Vec<Violation>, ev: &mut Evidence, sig: String, msg: String, case: J| {
                if ctx.is_known(&sig) {
                    ev.excluded_known += 1;
                } else if !vs.iter().any(|v| v.signature == sig) {
                    vs.push(Violation { property: "C10".into(), signature: sig, message: msg, case });
                }
            };
            let mut run_spec = |spec: &MsmSpec, ps: u64, ev: &mut Evidence, vs: &mut Vec<Violation>, class: &str| {
                ev.evaluations += 1;
                match oracle_spec(spec, ps) {
                    Ok(outcome) => {
                        if outcome == "reordered" && spec.ncells() >= 2 {
                            let mut key: Vec<u64> = vec![spec.number() as u64, spec.header, spec.sat_mask(), spec.sig_mask() as u64, ps];
                            key.extend(spec.cells.iter().map(|c| *c as u64));
                            key.extend(spec.sig_data.iter().flatten().take(8));
                            ev.nontrivial_hash(hash_u64s(&key));
                        }
                        ev.class(&format!("{}/{}", class, outcome));
                        if spec.ncells() > 20 && ev.want_sample() {
                            ev.sample(json!({"number":spec.number(),"satellites":spec.sats,"signal_positions":spec.sigs,"cells":spec.ncells(),"total_bits":spec.total_bits(),"outcome":outcome}));
                        }
                    }
                    Err((sig, msg)) => push(vs, ev, sig, msg, spec_json(spec, ps)),
                }
            };
            // exhaustive small scopes
            let alpha_s = [1u8, 2, 33, 64];
            let table = cons.table();
            let alpha_g: Vec<u8> = table.iter().take(3).map(|t| t.0).collect();
            let mut s_sets: Vec<Vec<u8>> = Vec::new();
            for i in 0..alpha_s.len() {
                s_sets.push(vec![alpha_s[i]]);
                for j in i + 1..alpha_s.len() {
                    s_sets.push(vec![alpha_s[i], alpha_s[j]]);
                }
            }
            let mut g_sets: Vec<Vec<u8>> = Vec::new();
            for i in 0..alpha_g.len() {
                g_sets.push(vec![alpha_g[i]]);
                for j in i + 1..alpha_g.len() {
                    g_sets.push(vec![alpha_g[i], alpha_g[j]]);
                }
            }
            for s in &s_sets {
                for g in &g_sets {
                    let nc = s.len() * g.len();
                    for bits in 1u32..(1 << nc) {
                        let cells: Vec<bool> = (0..nc).map(|k| (bits >> k) & 1 == 1).collect();
                        let rows_ok = (0..s.len()).all(|i| (0..g.len()).any(|j| cells[i * g.len() + j]));
                        let cols_ok = (0..g.len()).all(|j| (0..s.len()).any(|i| cells[i * g.len() + j]));
                        if !rows_ok || !cols_ok {
                            continue;
                        }
                        let mut spec = MsmSpec { cons, level, header: rng.next_u64() & ((1u64 << msm::HEADER_REST_BITS) - 1), sats: s.clone(), sigs: g.clone(), cells, sat_data: vec![], sig_data: vec![] };
                        msm::fill_data(&mut rng, &mut spec);
                        let ps = rng.next_u64();
                        run_spec(&spec, ps, &mut ev, &mut vs, "small-scope");
                    }
                }
            }
            // random shapes
            for i in 0..per_type {
                let spec = match i % 8 {
                    0 => msm::spec_with_shape(&mut rng, cons, level, 64, 1),
                    1 => {
                        let ng = table.len().min(32);
                        msm::spec_with_shape(&mut rng, cons, level, 64 / ng, ng)
                    }
                    2 => {
                        let ng = table.len().min(8);
                        msm::spec_with_shape(&mut rng, cons, level, 64 / ng, ng)
                    }
                    _ => msm::random_spec(&mut rng, cons, level, 64),
                };
                let ps = rng.next_u64();
                run_spec(&spec, ps, &mut ev, &mut vs, "random-shape");
            }
            // invalid classes
            for rep in 0..ctx.n(60, 1500) {
                for d in DEFECTS {
                    let seed = rng.next_u64();
                    ev.evaluations += 1;
                    match oracle_defect(tc, cons, *d, seed) {
                        Ok(()) => {
                            ev.nontrivial_hash(hash_u64s(&[tc.number as u64, *d as u64, seed]));
                            if rep == 0 {
                                ev.class(&format!("invalid-class/{}", defect_name(*d)));
                            }
                        }
                        Err((sig, msg)) => push(&mut vs, &mut ev, sig, msg, json!({"kind":"msm-defect","number":tc.number,"defect":defect_name(*d),"seed":seed})),
                    }
                }
            }
            (ev, vs)
        })
        .collect();
    let mut ev = Evidence::new();
    let mut vs: Vec<Violation> = Vec::new();
    for (e, v) in parts {
        ev.merge(e);
        for x in v {
            if vs.iter().filter(|y| y.signature == x.signature).count() < 1 {
                vs.push(x);
            }
        }
    }
    ev.extra.insert("msm_types".into(), json!(msm_types.len()));
    let _ = hex(&[]);
    vs.truncate(10);
    CheckResult { evidence: ev, rule, assumptions, violations: vs }
}
