//! C12 — a builder's output depends only on the message, not on what it built before.
use crate::bits::hex;
use crate::infra::*;
use crate::msggen::{self, corpus, value_to_message, Corpus};
use crate::msm::Cons;
use crate::value::{schema_key, Step, Value};
use proptest::prelude::*;
use rtcm_rs::prelude::*;
use serde_json::{json, Value as J};
use std::sync::OnceLock;

pub struct PoolEntry {
    pub label: String,
    pub tree: Value,
    pub msg: Message,
    /// Some(frame length) when a fresh builder accepts it
    pub fresh_len: Option<usize>,
    pub pad_bits: bool,
}

fn fresh(m: &Message) -> Result<Vec<u8>, String> {
    let mut b = MessageBuilder::new();
    b.build_message(m).map(|f| f.to_vec()).map_err(|e| format!("{:?}", e))
}

fn push_entry(pool: &mut Vec<PoolEntry>, label: String, tree: Value) {
    if let Ok(msg) = value_to_message(&tree) {
        if let Ok(r) = catch(|| fresh(&msg)) {
            let fresh_len = r.as_ref().ok().map(|f| f.len());
            pool.push(PoolEntry { label, tree, msg, fresh_len, pad_bits: false });
        }
    }
}

pub fn build_pool(corp: &Corpus) -> Vec<PoolEntry> {
    let mut pool: Vec<PoolEntry> = Vec::new();
    // wire-less variants: fail at the very first step
    for m in [Message::Empty, Message::Corrupt, Message::MsgNotSupported(rtcm_rs::msg::message::MsgNotSupportedT { message_number: 1000 })] {
        let tree = msggen::message_to_value(&m);
        pool.push(PoolEntry { label: "wireless".into(), tree, msg: m, fresh_len: None, pad_bits: false });
    }
    for tc in &corp.types {
        for (i, b) in tc.bases.iter().enumerate() {
            push_entry(&mut pool, format!("{}/base{}", tc.number, i), b.clone());
        }
        // the largest base with every list filled to capacity (maximum-length frames)
        if let Some(big) = tc.bases.iter().max_by_key(|b| format!("{:?}", b).len()) {
            let mut all = Vec::new();
            big.walk(&mut Vec::new(), &mut all);
            let seqs: Vec<_> = all.iter().filter(|(_, n)| matches!(n, Value::Seq(_))).map(|(p, _)| p.clone()).collect();
            for path in seqs.iter().filter(|p| p.iter().filter(|s| matches!(s, Step::Index(_))).count() == 0) {
                let key = schema_key(path);
                if let Some((tpl, cap)) = tc.seq_templates.get(&key) {
                    let mut t = big.clone();
                    if let Some(Value::Seq(items)) = t.get_mut(path) {
                        let n0 = items.len();
                        let mut i = 0;
                        while items.len() < *cap {
                            let e = if n0 > 0 { items[i % n0].clone() } else { tpl.clone() };
                            items.push(e);
                            i += 1;
                        }
                        // MSM / bias lists: make the keys distinct so that the encoder accepts the full list
                        if Cons::of_number(tc.number).is_none() {
                            for (k, e) in items.iter_mut().enumerate() {
                                if let Some(Value::U8(s)) = e.get_mut(&[Step::Field("satellite_id")]) {
                                    *s = (k % 64) as u8;
                                }
                            }
                        }
                    }
                    push_entry(&mut pool, format!("{}/full{}", tc.number, key), t.clone());
                    // failing late: the last element of the full list gets an extreme value in one numeric leaf
                    if let Some(Value::Seq(items)) = t.get(path) {
                        if let Some(last) = items.last() {
                            let mut leaves = Vec::new();
                            last.walk(&mut Vec::new(), &mut leaves);
                            let li = items.len() - 1;
                            for (lp, node) in leaves.iter().filter(|(_, n)| n.is_leaf_number()) {
                                let nv = if node.is_float() { Value::F64(-1e30) } else { Value::I64(i64::MIN) };
                                let mut t2 = t.clone();
                                let mut full = path.clone();
                                full.push(Step::Index(li));
                                full.extend(lp.iter().cloned());
                                if let Some(slot) = t2.get_mut(&full) {
                                    *slot = nv;
                                }
                                if let Ok(m) = value_to_message(&t2) {
                                    if let Ok(Err(_)) = catch(|| fresh(&m)) {
                                        push_entry(&mut pool, format!("{}/fails-late{}", tc.number, schema_key(&full)), t2);
                                    }
                                }
                            }
                        }
                    }
                }
            }
        }
        // MSM: full 64-cell message and one that fails at the first satellite
        if let Some((cons, _)) = Cons::of_number(tc.number) {
            let table = cons.table();
            let ng = table.len().min(4);
            let ns = 64 / ng;
            let sats: Vec<u8> = (1..=ns as u8).collect();
            let mut cells = Vec::new();
            for s in &sats {
                for g in 0..ng {
                    cells.push((*s, (table[g].1, table[g].2)));
                }
            }
            if let Some(t) = msggen::msm_value(tc, &sats, &cells) {
                push_entry(&mut pool, format!("{}/msm-64-cells", tc.number), t);
            }
            let mut bad = sats.clone();
            bad[0] = 0;
            if let Some(t) = msggen::msm_value(tc, &bad, &cells) {
                push_entry(&mut pool, format!("{}/msm-bad-first-satellite", tc.number), t);
            }
            // fails after the masks: the last cell duplicates the first one
            let mut dup = cells.clone();
            dup.pop();
            dup.push(cells[0]);
            if let Some(t) = msggen::msm_value(tc, &sats, &dup) {
                push_entry(&mut pool, format!("{}/msm-duplicate-cell", tc.number), t);
            }
        }
        // text: 128 characters (refused after the header was written)
        if tc.number == 1029 {
            if let Some(b) = tc.bases.first() {
                let mut t = b.clone();
                if let Some(s) = t.get_mut(&[Step::Inner, Step::Field("text_str")]) {
                    *s = Value::Str("x".repeat(128));
                }
                push_entry(&mut pool, "1029/128-chars".into(), t);
                let mut t = b.clone();
                if let Some(s) = t.get_mut(&[Step::Inner, Step::Field("text_str")]) {
                    *s = Value::Str("ÿ".repeat(127));
                }
                push_entry(&mut pool, "1029/127x2-bytes".into(), t);
            }
        }
    }
    // which successful frames have padding bits (payload bit length not a multiple of 8) cannot be seen from outside;
    // approximate: mark frames whose last payload byte has a zero low bit in the fresh encoding
    for e in pool.iter_mut() {
        if let Some(_) = e.fresh_len {
            if let Ok(f) = fresh(&e.msg) {
                let last = f[f.len() - 4];
                e.pad_bits = last & 1 == 0;
            }
        }
    }
    pool
}

pub fn pool(seed: u64) -> &'static Vec<PoolEntry> {
    static P: OnceLock<Vec<PoolEntry>> = OnceLock::new();
    P.get_or_init(|| build_pool(corpus(seed)))
}

/// a small set of messages used by C01/C09 as a one-step builder history before the message under test:
/// refused at the first step, refused late, and the longest accepted frames (indexes into the pool)
pub fn disturbers(seed: u64) -> &'static Vec<usize> {
    static D: OnceLock<Vec<usize>> = OnceLock::new();
    D.get_or_init(|| {
        let p = pool(seed);
        let mut out: Vec<usize> = Vec::new();
        let mut take = |pred: &dyn Fn(&PoolEntry) -> bool, n: usize, out: &mut Vec<usize>| {
            let mut k = 0;
            for (i, e) in p.iter().enumerate() {
                if pred(e) && !out.contains(&i) {
                    out.push(i);
                    k += 1;
                    if k >= n {
                        break;
                    }
                }
            }
        };
        take(&|e| e.label == "wireless", 3, &mut out);
        take(&|e| e.label.contains("fails-late"), 12, &mut out);
        take(&|e| e.label.contains("msm-bad-first-satellite"), 4, &mut out);
        take(&|e| e.label.contains("msm-duplicate-cell"), 6, &mut out);
        take(&|e| e.label.contains("128-chars"), 1, &mut out);
        let mut by_len: Vec<usize> = (0..p.len()).filter(|i| p[*i].fresh_len.is_some()).collect();
        by_len.sort_by_key(|i| std::cmp::Reverse(p[*i].fresh_len.unwrap_or(0)));
        for i in by_len.into_iter().take(16) {
            if !out.contains(&i) {
                out.push(i);
            }
        }
        out
    })
}

/// history oracle: one builder reused for every step must behave like a fresh builder at every step
/// one step of a builder history
pub enum StepRef<'a> {
    Build(&'a Message),
    /// the crate's own `build_generated_message` (feature test_gen) used on the same builder: (message number, seed)
    Generated(u16, u64),
}

pub fn oracle(msgs: &[&Message]) -> Result<(), (String, String)> {
    let steps: Vec<StepRef> = msgs.iter().map(|m| StepRef::Build(m)).collect();
    oracle_steps(&steps)
}

pub fn oracle_steps(msgs: &[StepRef]) -> Result<(), (String, String)> {
    let r = catch(|| -> Result<(), (String, String)> {
        let mut reused = MessageBuilder::new();
        for (i, st) in msgs.iter().enumerate() {
            let m = match st {
                StepRef::Build(m) => *m,
                StepRef::Generated(number, seed) => {
                    // only disturbs the builder's state; its own outcome (even a panic inside the generator) is not judged
                    let mut r1 = crate::rng::Rng::new(*seed);
                    let (s1, s2, s3) = (r1.next_u64(), r1.next_u64(), r1.next_u64());
                    let _ = std::panic::catch_unwind(std::panic::AssertUnwindSafe(|| {
                        let mut vg = rtcm_rs::val_gen::ValGen::new(
                            crate::rng::RandAdapter { rng: crate::rng::Rng::new(s1), max_per_1024: 8 },
                            crate::rng::RandAdapter { rng: crate::rng::Rng::new(s2), max_per_1024: 8 },
                            crate::rng::RandAdapter { rng: crate::rng::Rng::new(s3), max_per_1024: 0 },
                        );
                        let _ = reused.build_generated_message(&mut vg, *number).map(|f| f.len());
                    }));
                    continue;
                }
            };
            let a: Result<Vec<u8>, String> = reused.build_message(m).map(|f| f.to_vec()).map_err(|e| format!("{:?}", e));
            let b = fresh(m);
            match (&a, &b) {
                (Ok(x), Ok(y)) => {
                    if x != y {
                        let pos = x.iter().zip(y.iter()).position(|(p, q)| p != q).unwrap_or(x.len().min(y.len()));
                        return Err((
                            "c12:frame-depends-on-history".into(),
                            format!(
                                "step {} of {} ({}): reused builder produced {} bytes, fresh builder {} bytes; first difference at byte {} ({} vs {})",
                                i + 1,
                                msgs.len(),
                                crate::registry::variant_name(m),
                                x.len(),
                                y.len(),
                                pos,
                                hex(&x[pos.min(x.len())..(pos + 4).min(x.len())]),
                                hex(&y[pos.min(y.len())..(pos + 4).min(y.len())])
                            ),
                        ));
                    }
                }
                (Err(_), Err(_)) => {}
                (Ok(_), Err(e)) => return Err(("c12:reused-accepts-fresh-refuses".into(), format!("step {}: reused builder returned a frame, fresh builder {}", i + 1, e))),
                (Err(e), Ok(_)) => return Err(("c12:reused-refuses-fresh-accepts".into(), format!("step {}: reused builder returned {}, fresh builder a frame", i + 1, e))),
            }
        }
        Ok(())
    });
    match r {
        Ok(x) => x,
        Err(p) => Err((panic_signature(&p), format!("panic: {}", p))),
    }
}

/// history entry -> step: one in eight entries is a call of the crate's own generator on the same builder
fn step_of<'a>(pool: &'a [PoolEntry], np: usize, i: u16) -> StepRef<'a> {
    if i % 8 == 7 {
        let row = &crate::registry::MSG_TABLE[(i as usize / 8) % crate::registry::MSG_TABLE.len()];
        StepRef::Generated(row.number, i as u64 * 7919)
    } else {
        StepRef::Build(&pool[(i as usize * np) >> 16].msg)
    }
}

pub fn run(ctx: &Ctx, replay: Option<&J>) -> CheckResult {
    let rule = "proptest histories: 0..12 calls (build_message on pool messages, one in eight a build_generated_message call of the test_gen feature on the same builder) + a target, drawn from a pool holding every supported type (Default, decoded golden zero/ones/random vectors, generated and \
        synthesised messages), each list filled to capacity (maximum-length frames incl. 64-cell MSM), messages refused at the first step (Empty/Corrupt/MsgNotSupported, \
        MSM with satellite 0), and messages refused late (last element of a full list out of range, MSM duplicate cell, 1029 with 128 characters). oracle: at every \
        step the reused builder returns Ok exactly when a fresh MessageBuilder does and then identical bytes. non-trivial = a longer successful frame or a refused \
        build precedes the target; distinct = hash of the index history"
        .to_string();
    let assumptions = vec!["error kinds are not compared (the statement speaks of frames only)".to_string()];
    if let Some(c) = replay {
        let mut ev = Evidence::new();
        ev.eval();
        let mut vs = Vec::new();
        enum Owned {
            M(Message),
            G(u16, u64),
        }
        let owned: Vec<Owned> = c["history"]
            .as_array()
            .map(|a| {
                a.iter()
                    .filter_map(|j| {
                        if j["t"] == "generated" {
                            Some(Owned::G(j["number"].as_u64().unwrap_or(0) as u16, j["seed"].as_u64().unwrap_or(0)))
                        } else {
                            Value::from_json(j).and_then(|t| value_to_message(&t).ok()).map(Owned::M)
                        }
                    })
                    .collect()
            })
            .unwrap_or_default();
        let refs: Vec<StepRef> = owned.iter().map(|o| match o { Owned::M(m) => StepRef::Build(m), Owned::G(n, s) => StepRef::Generated(*n, *s) }).collect();
        if let Err((sig, msg)) = oracle_steps(&refs) {
            vs.push(Violation { property: "C12".into(), signature: sig, message: msg, case: c.clone() });
        }
        return CheckResult { evidence: ev, rule, assumptions, violations: vs };
    }
    let pool = pool(ctx.seed);
    let np = pool.len();
    let cases = ctx.n(1_000_000, 30_000_000);
    let idx = |i: u16| -> usize { (i as usize * np) >> 16 };
    let (mut ev, vs) = pt_run(
        ctx,
        "c12",
        cases,
        || (prop::collection::vec(any::<u16>(), 0..12), any::<u16>()),
        |(hist, target): &(Vec<u16>, u16), ev| {
            let mut msgs: Vec<StepRef> = hist.iter().map(|i| step_of(pool, np, *i)).collect();
            let t = &pool[idx(*target)];
            msgs.push(StepRef::Build(&t.msg));
            let r = oracle_steps(&msgs);
            if let (Ok(()), Some(ev)) = (&r, ev) {
                let tl = t.fresh_len.unwrap_or(0);
                let longer_before = hist.iter().filter(|i| **i % 8 != 7).any(|i| pool[idx(*i)].fresh_len.map(|l| l > tl).unwrap_or(false));
                let failed_before = hist.iter().filter(|i| **i % 8 != 7).any(|i| pool[idx(*i)].fresh_len.is_none());
                if hist.iter().any(|i| *i % 8 == 7) {
                    ev.class("history/has-build_generated_message-call");
                }
                if t.fresh_len.is_some() && (longer_before || failed_before) {
                    let mut key: Vec<u64> = hist.iter().map(|i| idx(*i) as u64).collect();
                    key.push(idx(*target) as u64);
                    ev.nontrivial_hash(hash_u64s(&key));
                    if longer_before {
                        ev.class("history/longer-frame-before-target");
                    }
                    if failed_before {
                        ev.class("history/refused-build-before-target");
                    }
                    if t.pad_bits && longer_before {
                        ev.class("history/target-with-zero-tail-bit-after-longer-frame");
                    }
                    if ev.want_sample() && hist.len() >= 3 {
                        let mut labels: Vec<&str> = hist.iter().map(|i| if *i % 8 == 7 { "build_generated_message" } else { pool[idx(*i)].label.as_str() }).collect();
                        labels.push(t.label.as_str());
                        ev.sample(json!({"history":labels,"target_frame_len":tl}));
                    }
                } else {
                    ev.class("history/trivial");
                }
            }
            r
        },
        |(hist, target)| {
            let mut trees: Vec<J> = hist
                .iter()
                .map(|i| match step_of(pool, np, *i) {
                    StepRef::Generated(n, sd) => json!({"t":"generated","number":n,"seed":sd}),
                    StepRef::Build(_) => pool[idx(*i)].tree.to_json(),
                })
                .collect();
            trees.push(pool[idx(*target)].tree.to_json());
            let mut labels: Vec<&str> = hist.iter().map(|i| if *i % 8 == 7 { "build_generated_message" } else { pool[idx(*i)].label.as_str() }).collect();
            labels.push(pool[idx(*target)].label.as_str());
            json!({"kind":"history","labels":labels,"history":trees})
        },
    );
    ev.extra.insert("pool_size".into(), json!(np));
    ev.extra.insert("pool_refused_by_fresh_builder".into(), json!(pool.iter().filter(|e| e.fresh_len.is_none()).count()));
    ev.extra.insert("pool_fails_late".into(), json!(pool.iter().filter(|e| e.label.contains("fails-late") || e.label.contains("duplicate-cell") || e.label.contains("128-chars")).count()));
    ev.extra.insert("pool_max_frame_len".into(), json!(pool.iter().filter_map(|e| e.fresh_len).max()));
    CheckResult { evidence: ev, rule, assumptions, violations: vs }
}
