//! C12 — a builder's output depends only on the message, not on what it built before.
use crate::bits::hex;
use crate::infra::*;
use crate::msggen::{self, corpus, value_to_message, Corpus};
use crate::msm::Cons;
use crate::value::{schema_key, Step, Value};
use proptest::prelude::*;
use rtcm_rs::prelude::*;
use serde_json::{json, Value as J};
use std::sync::OnceLock;

pub struct PoolEntry {
    pub label: String,
    pub tree: Value,
    pub msg: Message,
    /// Some(frame length) when a fresh builder accepts it
    pub fresh_len: Option<usize>,
    pub pad_bits: bool,
}

fn fresh(m: &Message) -> Result<Vec<u8>, String> {
    let mut b = MessageBuilder::new();
    b.build_message(m).map(|f| f.to_vec()).map_err(|e| format!("{:?}", e))
}

fn push_entry(pool: &mut Vec<PoolEntry>, label: String, tree: Value) {
    if let Ok(msg) = value_to_message(&tree) {
        if let Ok(r) = catch(|| fresh(&msg)) {
            let fresh_len = r.as_ref().ok().map(|f| f.len());
            pool.push(PoolEntry { label, tree, msg, fresh_len, pad_bits: false });
        }
    }
}

pub fn build_pool(corp: &Corpus) -> Vec<PoolEntry> {
    let mut pool: Vec<PoolEntry> = Vec::new();
    // wire-less variants: fail at the very first step
    for m in [Message::Empty, Message::Corrupt, Message::MsgNotSupported(rtcm_rs::msg::message::MsgNotSupportedT { message_number: 1000 })] {
        let tree = msggen::message_to_value(&m);
        pool.push(PoolEntry { label: "wireless".into(), tree, msg: m, fresh_len: None, pad_bits: false });
    }
    // stand-ins for "build_generated_message(number) was called on this builder" (see msggen::use_builder_before)
    for n in [1005u16, 1077, 1019, 1057, 1029, 1127] {
        if crate::registry::is_supported(n) {
            let m = Message::MsgNotSupported(rtcm_rs::msg::message::MsgNotSupportedT { message_number: n });
            let tree = msggen::message_to_value(&m);
            pool.push(PoolEntry { label: format!("generated-stand-in/{}", n), tree, msg: m, fresh_len: None, pad_bits: false });
        }
    }
    for tc in &corp.types {
        for (i, b) in tc.bases.iter().enumerate() {
            push_entry(&mut pool, format!("{}/base{}", tc.number, i), b.clone());
        }
        // the largest base with every list filled to capacity (maximum-length frames)
        if let Some(big) = tc.bases.iter().max_by_key(|b| format!("{:?}", b).len()) {
            let mut all = Vec::new();
            big.walk(&mut Vec::new(), &mut all);
            let seqs: Vec<_> = all.iter().filter(|(_, n)| matches!(n, Value::Seq(_))).map(|(p, _)| p.clone()).collect();
            for path in seqs.iter().filter(|p| p.iter().filter(|s| matches!(s, Step::Index(_))).count() == 0) {
                let key = schema_key(path);
                if let Some((tpl, cap)) = tc.seq_templates.get(&key) {
                    let mut t = big.clone();
                    if let Some(Value::Seq(items)) = t.get_mut(path) {
                        let n0 = items.len();
                        let mut i = 0;
                        while items.len() < *cap {
                            let e = if n0 > 0 { items[i % n0].clone() } else { tpl.clone() };
                            items.push(e);
                            i += 1;
                        }
                        // MSM / bias lists: make the keys distinct so that the encoder accepts the full list
                        if Cons::of_number(tc.number).is_none() {
                            for (k, e) in items.iter_mut().enumerate() {
                                if let Some(Value::U8(s)) = e.get_mut(&[Step::Field("satellite_id")]) {
                                    *s = (k % 64) as u8;
                                }
                            }
                        }
                    }
                    push_entry(&mut pool, format!("{}/full{}", tc.number, key), t.clone());
                    // failing late: the last element of the full list gets an extreme value in one numeric leaf
                    if let Some(Value::Seq(items)) = t.get(path) {
                        if let Some(last) = items.last() {
                            let mut leaves = Vec::new();
                            last.walk(&mut Vec::new(), &mut leaves);
                            let li = items.len() - 1;
                            for (lp, node) in leaves.iter().filter(|(_, n)| n.is_leaf_number()) {
                                let nv = if node.is_float() { Value::F64(-1e30) } else { Value::I64(i64::MIN) };
                                let mut t2 = t.clone();
                                let mut full = path.clone();
                                full.push(Step::Index(li));
                                full.extend(lp.iter().cloned());
                                if let Some(slot) = t2.get_mut(&full) {
                                    *slot = nv;
                                }
                                if let Ok(m) = value_to_message(&t2) {
                                    if let Ok(Err(_)) = catch(|| fresh(&m)) {
                                        push_entry(&mut pool, format!("{}/fails-late{}", tc.number, schema_key(&full)), t2);
                                    }
                                }
                            }
                        }
                    }
                }
            }
        }
        // MSM: full 64-cell message and one that fails at the first satellite
        if let Some((cons, _)) = Cons::of_number(tc.number) {
            let table = cons.table();
            let ng = table.len().min(4);
            let ns = 64 / ng;
            let sats: Vec<u8> = (1..=ns as u8).collect();
            let mut cells = Vec::new();
            for s in &sats {
                for g in 0..ng {
                    cells.push((*s, (table[g].1, table[g].2)));
                }
            }
            if let Some(t) = msggen::msm_value(tc, &sats, &cells) {
                push_entry(&mut pool, format!("{}/msm-64-cells", tc.number), t);
            }
            let mut bad = sats.clone();
            bad[0] = 0;
            if let Some(t) = msggen::msm_value(tc, &bad, &cells) {
                push_entry(&mut pool, format!("{}/msm-bad-first-satellite", tc.number), t);
            }
            // fails after the masks: the last cell duplicates the first one
            let mut dup = cells.clone();
            dup.pop();
            dup.push(cells[0]);
            if let Some(t) = msggen::msm_value(tc, &sats, &dup) {
                push_entry(&mut pool, format!("{}/msm-duplicate-cell", tc.number), t);
            }
        }
        // text: 128 characters (refused after the header was written)
        if tc.number == 1029 {
            if let Some(b) = tc.bases.first() {
                let mut t = b.clone();
                if let Some(s) = t.get_mut(&[Step::Inner, Step::Field("text_str")]) {
                    *s = Value::Str("x".repeat(128));
                }
                push_entry(&mut pool, "1029/128-chars".into(), t);
                let mut t = b.clone();
                if let Some(s) = t.get_mut(&[Step::Inner, Step::Field("text_str")]) {
                    *s = Value::Str("ÿ".repeat(127));
                }
                push_entry(&mut pool, "1029/127x2-bytes".into(), t);
            }
        }
    }
    // which successful frames have padding bits (payload bit length not a multiple of 8) cannot be seen from outside;
    // approximate: mark frames whose last payload byte has a zero low bit in the fresh encoding
    for e in pool.iter_mut() {
        if let Some(_) = e.fresh_len {
            if let Ok(f) = fresh(&e.msg) {
                let last = f[f.len() - 4];
                e.pad_bits = last & 1 == 0;
            }
        }
    }
    pool
}

pub fn pool(seed: u64) -> &'static Vec<PoolEntry> {
    static P: OnceLock<Vec<PoolEntry>> = OnceLock::new();
    P.get_or_init(|| build_pool(corpus(seed)))
}

/// a small set of messages used by C01/C09 as a one-step builder history before the message under test:
/// refused at the first step, refused late, and the longest accepted frames (indexes into the pool)
pub fn disturbers(seed: u64) -> &'static Vec<usize> {
    static D: OnceLock<Vec<usize>> = OnceLock::new();
    D.get_or_init(|| {
        let p = pool(seed);
        let mut out: Vec<usize> = Vec::new();
        let mut take = |pred: &dyn Fn(&PoolEntry) -> bool, n: usize, out: &mut Vec<usize>| {
            let mut k = 0;
            for (i, e) in p.iter().enumerate() {
                if pred(e) && !out.contains(&i) {
                    out.push(i);
                    k += 1;
                    if k >= n {
                        break;
                    }
                }
            }
        };
        take(&|e| e.label == "wireless", 3, &mut out);
        take(&|e| e.label.starts_with("generated-stand-in"), 6, &mut out);
        take(&|e| e.label.contains("fails-late"), 12, &mut out);
        take(&|e| e.label.contains("msm-bad-first-satellite"), 4, &mut out);
        take(&|e| e.label.contains("msm-duplicate-cell"), 6, &mut out);
        take(&|e| e.label.contains("128-chars"), 1, &mut out);
        let mut by_len: Vec<usize> = (0..p.len()).filter(|i| p[*i].fresh_len.is_some()).collect();
        by_len.sort_by_key(|i| std::cmp::Reverse(p[*i].fresh_len.unwrap_or(0)));
        for i in by_len.into_iter().take(16) {
            if !out.contains(&i) {
                out.push(i);
            }
        }
        out
    })
}

/// history oracle: one builder reused for every step must behave like a fresh builder at every step
/// one step of a builder history
pub enum StepRef<'a> {
    Build(&'a Message),
    /// the crate's own `build_generated_message` (feature test_gen) used on the same builder: (message number, seed)
    Generated(u16, u64),
}

pub fn oracle(msgs: &[&Message]) -> Result<(), (String, String)> {
    let steps: Vec<StepRef> = msgs.iter().map(|m| StepRef::Build(m)).collect();
    oracle_steps(&steps)
}

pub fn oracle_steps(msgs: &[StepRef]) -> Result<(), (String, String)> {
    let r = catch(|| -> Result<(), (String, String)> {
        let mut reused = MessageBuilder::new();
        for (i, st) in msgs.iter().enumerate() {
            let m = match st {
                StepRef::Build(m) => *m,
                StepRef::Generated(number, seed) => {
                    // only disturbs the builder's state; its own outcome (even a panic inside the generator) is not judged
                    let mut r1 = crate::rng::Rng::new(*seed);
                    let (s1, s2, s3) = (r1.next_u64(), r1.next_u64(), r1.next_u64());
                    let _ = std::panic::catch_unwind(std::panic::AssertUnwindSafe(|| {
                        let mut vg = rtcm_rs::val_gen::ValGen::new(
                            crate::rng::RandAdapter { rng: crate::rng::Rng::new(s1), max_per_1024: 8 },
                            crate::rng::RandAdapter { rng: crate::rng::Rng::new(s2), max_per_1024: 8 },
                            crate::rng::RandAdapter { rng: crate::rng::Rng::new(s3), max_per_1024: 0 },
                        );
                        let _ = reused.build_generated_message(&mut vg, *number).map(|f| f.len());
                    }));
                    continue;
                }
            };
            let a: Result<Vec<u8>, String> = reused.build_message(m).map(|f| f.to_vec()).map_err(|e| format!("{:?}", e));
            let b = fresh(m);
            match (&a, &b) {
                (Ok(x), Ok(y)) => {
                    if x != y {
                        let pos = x.iter().zip(y.iter()).position(|(p, q)| p != q).unwrap_or(x.len().min(y.len()));
                        return Err((
                            "c12:frame-depends-on-history".into(),
                            format!(
                                "step {} of {} ({}): reused builder produced {} bytes, fresh builder {} bytes; first difference at byte {} ({} vs {})",
                                i + 1,
                                msgs.len(),
                                crate::registry::variant_name(m),
                                x.len(),
                                y.len(),
                                pos,
                                hex(&x[pos.min(x.len())..(pos + 4).min(x.len())]),
                                hex(&y[pos.min(y.len())..(pos + 4).min(y.len())])
                            ),
                        ));
                    }
                }
                (Err(_), Err(_)) => {}
                (Ok(_), Err(e)) => return Err(("c12:reused-accepts-fresh-refuses".into(), format!("step {}: reused builder returned a frame, fresh builder {}", i + 1, e))),
                (Err(e), Ok(_)) => return Err(("c12:reused-refuses-fresh-accepts".into(), format!("step {}: reused builder returned {}, fresh builder a frame", i + 1, e))),
            }
        }
        Ok(())
    });
    match r {
        Ok(x) => x,
        Err(p) => Err((panic_signature(&p), format!("panic: {}", p))),
    }
}

/// Residue probes: 1059 messages whose encoding has exactly L payload bytes and a single data bit in the last byte
/// (7 padding bits), for every L that the layout 67 + 11*sats + 19*biases can reach. Built through the public API.
pub fn residue_probes() -> Vec<(usize, Message, Vec<u8>)> {
    use crate::biasmsg::BiasMsg;
    use crate::checks::c16::{make_message, Entry};
    let sigs = BiasMsg::M1059.signals();
    let mut out = Vec::new();
    for l in 9..=1023usize {
        let t = 8 * (l - 1) + 1;
        if t < 67 + 30 {
            continue;
        }
        let r = t - 67;
        let mut found = None;
        for s in 1..=63usize {
            if r < 11 * s {
                break;
            }
            let rem = r - 11 * s;
            if rem % 19 == 0 {
                let b = rem / 19;
                if b >= s && b <= 31 * s && b <= 390 {
                    found = Some((s, b));
                    break;
                }
            }
        }
        if let Some((s, b)) = found {
            let mut es = Vec::with_capacity(b);
            for i in 0..b {
                let sat = (i % s) as u8;
                let sg = sigs[(i / s) % sigs.len()];
                es.push(Entry { sat, band: sg.1, attr: sg.2, bias: 0.0 });
            }
            if let Some(m) = make_message(BiasMsg::M1059, &es) {
                if let Ok(f) = fresh(&m) {
                    if f.len() == l + 6 {
                        out.push((l, m, f));
                    }
                }
            }
        }
    }
    out
}

/// every refused pool message and the longest accepted ones, each followed by every residue probe: whatever a build
/// leaves behind in any payload byte must not show in the padding of a later frame ending in that byte
fn residue_histories(ctx: &Ctx) -> (Evidence, Vec<Violation>) {
    use rayon::prelude::*;
    let pool = pool(ctx.seed);
    let probes = residue_probes();
    let mut firsts: Vec<usize> = (0..pool.len()).filter(|i| pool[*i].fresh_len.is_none()).collect();
    let mut by_len: Vec<usize> = (0..pool.len()).filter(|i| pool[*i].fresh_len.is_some()).collect();
    by_len.sort_by_key(|i| std::cmp::Reverse(pool[*i].fresh_len.unwrap_or(0)));
    firsts.extend(by_len.into_iter().take(40));
    let stride = if ctx.tier == Tier::Thorough { 1 } else { 1 };
    let parts: Vec<(Evidence, Vec<Violation>)> = firsts
        .par_iter()
        .map(|fi| {
            let mut ev = Evidence::new();
            ev.sample_cap = 0;
            let mut vs: Vec<Violation> = Vec::new();
            let d = &pool[*fi];
            for (l, probe, fresh_frame) in probes.iter().step_by(stride) {
                ev.evaluations += 1;
                let r = catch(|| {
                    let mut b = MessageBuilder::new();
                    let _ = b.build_message(&d.msg).map(|f| f.len());
                    b.build_message(probe).map(|f| f.to_vec()).map_err(|e| format!("{:?}", e))
                });
                match r {
                    Ok(Ok(f)) if &f == fresh_frame => {
                        ev.distinct_by_construction += 1;
                    }
                    Ok(Ok(f)) => {
                        if vs.is_empty() {
                            let pos = f.iter().zip(fresh_frame.iter()).position(|(a, b)| a != b).unwrap_or(0);
                            vs.push(Violation {
                                property: "C12".into(),
                                signature: "c12:frame-depends-on-history".into(),
                                message: format!("builder used for [{}], then a {}-byte-payload probe message: frame differs from a fresh builder's at byte {}", d.label, l, pos),
                                case: json!({"kind":"history","labels":[d.label, format!("residue-probe-{}", l)],"history":[d.tree.to_json(), msggen::message_to_value(probe).to_json()]}),
                            });
                        }
                    }
                    Ok(Err(e)) => {
                        if vs.is_empty() {
                            vs.push(Violation {
                                property: "C12".into(),
                                signature: "c12:reused-refuses-fresh-accepts".into(),
                                message: format!("builder used for [{}], then probe {}: refused with {}", d.label, l, e),
                                case: json!({"kind":"history","labels":[d.label, format!("residue-probe-{}", l)],"history":[d.tree.to_json(), msggen::message_to_value(probe).to_json()]}),
                            });
                        }
                    }
                    Err(p) => {
                        if vs.is_empty() {
                            vs.push(Violation { property: "C12".into(), signature: panic_signature(&p), message: format!("panic: {}", p), case: json!({"kind":"history","labels":[d.label],"history":[d.tree.to_json(), msggen::message_to_value(probe).to_json()]}) });
                        }
                    }
                }
            }
            (ev, vs)
        })
        .collect();
    let mut ev = Evidence::new();
    let mut vs = Vec::new();
    for (e, v) in parts {
        ev.merge(e);
        vs.extend(v);
    }
    ev.class_n("residue-probe-histories", ev.evaluations);
    ev.extra.insert("residue_probe_lengths".into(), json!(probes.len()));
    ev.extra.insert("residue_probe_first_steps".into(), json!(firsts.len()));
    (ev, vs)
}

/// Sandwich histories: the same message built twice on one builder with a refused build (or two) in between,
/// [T, U, T] for every accepted pool message T and every refused pool message U (thorough: also [T, U, U', T] and
/// [T, V, T] with V accepted). State keyed on "what was built last" only shows in this shape.
fn sandwich_histories(ctx: &Ctx) -> (Evidence, Vec<Violation>) {
    use rayon::prelude::*;
    let pool = pool(ctx.seed);
    let accepted: Vec<usize> = (0..pool.len()).filter(|i| pool[*i].fresh_len.is_some()).collect();
    let refused: Vec<usize> = (0..pool.len()).filter(|i| pool[*i].fresh_len.is_none()).collect();
    let thorough = ctx.tier == Tier::Thorough;
    let parts: Vec<(Evidence, Vec<Violation>)> = accepted
        .par_iter()
        .map(|ti| {
            let mut ev = Evidence::new();
            ev.sample_cap = 0;
            let mut vs: Vec<Violation> = Vec::new();
            let t = &pool[*ti];
            let fresh_frame = match fresh(&t.msg) {
                Ok(f) => f,
                Err(_) => return (ev, vs),
            };
            let mut run = |mid: &[usize], ev: &mut Evidence, vs: &mut Vec<Violation>| {
                ev.evaluations += 1;
                let r = catch(|| {
                    let mut b = MessageBuilder::new();
                    let first = b.build_message(&t.msg).map(|f| f.to_vec()).map_err(|e| format!("{:?}", e));
                    for m in mid {
                        let _ = b.build_message(&pool[*m].msg).map(|f| f.len());
                    }
                    (first, b.build_message(&t.msg).map(|f| f.to_vec()).map_err(|e| format!("{:?}", e)))
                });
                let bad: Option<(String, String)> = match r {
                    Ok((Ok(a), Ok(b))) if a == fresh_frame && b == fresh_frame => None,
                    Ok((_, Ok(b))) if b != fresh_frame => {
                        let pos = b.iter().zip(fresh_frame.iter()).position(|(x, y)| x != y).unwrap_or(b.len().min(fresh_frame.len()));
                        Some(("c12:frame-depends-on-history".into(), format!("[{}] built, then {:?} , then [{}] again: the second frame differs from a fresh builder's at byte {}", t.label, mid.iter().map(|m| pool[*m].label.as_str()).collect::<Vec<_>>(), t.label, pos)))
                    }
                    Ok((_, Err(e))) => Some(("c12:reused-refuses-fresh-accepts".into(), format!("[{}] built, then {:?}, then [{}] again: refused with {}", t.label, mid.iter().map(|m| pool[*m].label.as_str()).collect::<Vec<_>>(), t.label, e))),
                    Ok(_) => Some(("c12:frame-depends-on-history".into(), format!("[{}]: first build on a new builder differs from another new builder's", t.label))),
                    Err(p) => Some((panic_signature(&p), format!("panic: {}", p))),
                };
                match bad {
                    None => ev.distinct_by_construction += 1,
                    Some((sig, msg)) => {
                        if vs.is_empty() {
                            let mut hist = vec![t.tree.to_json()];
                            hist.extend(mid.iter().map(|m| pool[*m].tree.to_json()));
                            hist.push(t.tree.to_json());
                            vs.push(Violation { property: "C12".into(), signature: sig, message: msg, case: json!({"kind":"history","history":hist}) });
                        }
                    }
                }
            };
            for (k, u) in refused.iter().enumerate() {
                run(&[*u], &mut ev, &mut vs);
                if thorough || (k + *ti) % 8 == 0 {
                    run(&[*u, refused[(k * 7 + *ti) % refused.len()]], &mut ev, &mut vs);
                }
            }
            if thorough {
                for v in accepted.iter() {
                    run(&[*v], &mut ev, &mut vs);
                }
            } else {
                // quick: the 24 longest accepted frames and 24 spread over the pool as the middle step
                for k in 0..48 {
                    let v = accepted[(k * 97 + *ti * 13) % accepted.len()];
                    run(&[v], &mut ev, &mut vs);
                }
            }
            (ev, vs)
        })
        .collect();
    let mut ev = Evidence::new();
    let mut vs = Vec::new();
    for (e, v) in parts {
        ev.merge(e);
        for x in v {
            if !vs.iter().any(|y: &Violation| y.signature == x.signature) {
                vs.push(x);
            }
        }
    }
    ev.class_n("sandwich-histories(same message again after refused/other builds)", ev.evaluations);
    ev.extra.insert("sandwich_accepted_messages".into(), json!(accepted.len()));
    ev.extra.insert("sandwich_refused_messages".into(), json!(refused.len()));
    (ev, vs)
}

fn retry_histories(ctx: &Ctx) -> (Evidence, Vec<Violation>) {
    use rayon::prelude::*;
    let corp = corpus(ctx.seed);
    let probes = residue_probes();
    let parts: Vec<(Evidence, Vec<Violation>)> = corp
        .types
        .par_iter()
        .map(|tc| {
            let mut ev = Evidence::new();
            ev.sample_cap = 1;
            let mut vs: Vec<Violation> = Vec::new();
            let mut rng = ctx.rng("c12-retry", tc.number as u64);
            let big = match tc.bases.iter().max_by_key(|b| format!("{:?}", b).len()) {
                Some(b) => b,
                None => return (ev, vs),
            };
            let mut all = Vec::new();
            big.walk(&mut Vec::new(), &mut all);
            let seqs: Vec<_> = all.iter().filter(|(p, n)| matches!(n, Value::Seq(_)) && !p.iter().any(|s| matches!(s, Step::Index(_)))).map(|(p, _)| p.clone()).collect();
            for path in seqs {
                let key = schema_key(&path);
                let (tpl, cap) = match tc.seq_templates.get(&key) {
                    Some(t) => t.clone(),
                    None => continue,
                };
                // element pool from every base (all-zero, all-one and random vectors)
                let mut elems: Vec<Value> = Vec::new();
                for b in &tc.bases {
                    if let Some(Value::Seq(items)) = b.get(&path) {
                        for it in items {
                            if elems.len() < 64 && !elems.contains(it) {
                                elems.push(it.clone());
                            }
                        }
                    }
                }
                if elems.is_empty() {
                    elems.push(tpl.clone());
                }
                // failable leaves: setting them to an extreme makes a one-element message refused
                let mut leaves = Vec::new();
                tpl.walk(&mut Vec::new(), &mut leaves);
                let mut failable: Vec<(Vec<Step>, Value)> = Vec::new();
                for (lp, node) in leaves.iter().filter(|(_, n)| n.is_leaf_number()) {
                    let bad = if node.is_float() { Value::F64(-1e30) } else { Value::I64(i64::MIN) };
                    let mut t = big.clone();
                    let mut e = elems[0].clone();
                    if let Some(slot) = e.get_mut(lp) {
                        *slot = bad.clone();
                    }
                    if let Some(Value::Seq(items)) = t.get_mut(&path) {
                        *items = vec![e];
                    }
                    if let Ok(m) = value_to_message(&t) {
                        if let Ok(Err(_)) = catch(|| fresh(&m)) {
                            failable.push((lp.clone(), bad));
                        }
                    }
                }
                for (lp, bad) in failable.iter().take(3) {
                    for k in 0..cap {
                        for variant in 0..2u64 {
                            // k good elements (+ the bad one)
                            let start = if variant == 0 { 0 } else { rng.below(elems.len() as u64) as usize };
                            let good: Vec<Value> = (0..k).map(|i| elems[(start + i * (1 + variant as usize)) % elems.len()].clone()).collect();
                            let mut bad_e = elems[(start + k) % elems.len()].clone();
                            if let Some(slot) = bad_e.get_mut(lp) {
                                *slot = bad.clone();
                            }
                            let mk = |items: Vec<Value>| -> Option<Message> {
                                let mut t = big.clone();
                                if let Some(Value::Seq(s)) = t.get_mut(&path) {
                                    *s = items;
                                }
                                value_to_message(&t).ok()
                            };
                            let mut with_bad = good.clone();
                            with_bad.push(bad_e);
                            let m_bad = match mk(with_bad) {
                                Some(m) => m,
                                None => continue,
                            };
                            // residue probes ending in the bytes around the point of refusal
                            if let Some(tk) = mk(good.clone()) {
                                if let Ok(ft) = fresh(&tk) {
                                    let lt = ft.len() - 6;
                                    for (l, probe, fresh_frame) in probes.iter().filter(|(l, _, _)| *l + 2 >= lt && *l <= lt + 4) {
                                        ev.evaluations += 1;
                                        let r = catch(|| {
                                            let mut b = MessageBuilder::new();
                                            let _ = b.build_message(&m_bad).map(|f| f.len());
                                            b.build_message(probe).map(|f| f.to_vec()).map_err(|e| format!("{:?}", e))
                                        });
                                        match r {
                                            Ok(Ok(f)) if &f == fresh_frame => {
                                                ev.nontrivial_hash(hash_u64s(&[tc.number as u64, k as u64, variant, *l as u64, 77, hash_str(&schema_key(lp))]));
                                            }
                                            other => {
                                                if vs.is_empty() {
                                                    vs.push(Violation {
                                                        property: "C12".into(),
                                                        signature: "c12:frame-depends-on-history".into(),
                                                        message: format!("[{}: refused at element {} of {}, then a probe message with a {}-byte payload] reused builder differs from a fresh one ({})", tc.number, k, key, l, match other { Ok(Ok(_)) => "different bytes".to_string(), Ok(Err(e)) => e, Err(p) => p }),
                                                        case: json!({"kind":"history","labels":["refused-at-element", format!("residue-probe-{}", l)],"history":[msggen::message_to_value(&m_bad).to_json(), msggen::message_to_value(probe).to_json()]}),
                                                    });
                                                }
                                            }
                                        }
                                    }
                                }
                            }
                            let targets: Vec<Message> = [k, k.saturating_sub(1), (k + 1).min(cap)].iter().filter_map(|n| mk((0..*n).map(|i| if i < good.len() { good[i].clone() } else { elems[i % elems.len()].clone() }).collect())).collect();
                            for (ti, t) in targets.iter().enumerate() {
                                ev.evaluations += 1;
                                let steps = [StepRef::Build(&m_bad), StepRef::Build(t)];
                                match oracle_steps(&steps) {
                                    Ok(()) => {
                                        ev.nontrivial_hash(hash_u64s(&[tc.number as u64, k as u64, variant, ti as u64, hash_str(&schema_key(lp))]));
                                        if k % 8 == 0 {
                                            ev.class("retry-without-offending-element");
                                        }
                                    }
                                    Err((sig, msg)) => {
                                        if ctx.is_known(&sig) {
                                            ev.excluded_known += 1;
                                        } else if vs.is_empty() {
                                            vs.push(Violation {
                                                property: "C12".into(),
                                                signature: sig,
                                                message: format!("[{}: refused at element {} of {}, then the same message with {} elements] {}", tc.number, k, key, if ti == 0 { k } else if ti == 1 { k.saturating_sub(1) } else { k + 1 }, msg),
                                                case: json!({"kind":"history","labels":["refused-at-element","retry"],"history":[msggen::message_to_value(&m_bad).to_json(), msggen::message_to_value(t).to_json()]}),
                                            });
                                        }
                                    }
                                }
                            }
                        }
                    }
                }
            }
            (ev, vs)
        })
        .collect();
    let mut ev = Evidence::new();
    let mut vs = Vec::new();
    for (e, v) in parts {
        ev.merge(e);
        vs.extend(v);
    }
    (ev, vs)
}

/// history entry -> step: one in eight entries is a call of the crate's own generator on the same builder
fn step_of<'a>(pool: &'a [PoolEntry], np: usize, i: u16) -> StepRef<'a> {
    if i % 8 == 7 {
        let row = &crate::registry::MSG_TABLE[(i as usize / 8) % crate::registry::MSG_TABLE.len()];
        StepRef::Generated(row.number, i as u64 * 7919)
    } else {
        StepRef::Build(&pool[(i as usize * np) >> 16].msg)
    }
}

pub fn run(ctx: &Ctx, replay: Option<&J>) -> CheckResult {
    let rule = "proptest histories: 0..12 calls (build_message on pool messages, one in eight a build_generated_message call of the test_gen feature on the same builder) + a target (in half of the cases the target itself, or its pool neighbour of the same type, also sits earlier in the history), drawn from a pool holding every supported type (Default, decoded golden zero/ones/random vectors, generated and \
        synthesised messages), each list filled to capacity (maximum-length frames incl. 64-cell MSM), messages refused at the first step (Empty/Corrupt/MsgNotSupported, \
        MSM with satellite 0), and messages refused late (last element of a full list out of range, MSM duplicate cell, 1029 with 128 characters). plus systematic two-step histories 'list message refused at element k (every k, every failable field) then the same message cut to k, k-1, k+1 elements', sandwich histories [T, U, T] for every accepted pool message T and every refused one U (plus two refused steps and accepted middle steps), and residue probes: every refused pool message and the 40 longest accepted ones, each followed by a 1059 probe message for every reachable payload length 9..=1023 whose last byte carries one data bit and seven padding bits. oracle: at every \
        step the reused builder returns Ok exactly when a fresh MessageBuilder does and then identical bytes. non-trivial = a longer successful frame or a refused \
        build precedes the target; distinct = hash of the index history"
        .to_string();
    let assumptions = vec!["error kinds are not compared (the statement speaks of frames only)".to_string()];
    if let Some(c) = replay {
        let mut ev = Evidence::new();
        ev.eval();
        let mut vs = Vec::new();
        enum Owned {
            M(Message),
            G(u16, u64),
        }
        let owned: Vec<Owned> = c["history"]
            .as_array()
            .map(|a| {
                a.iter()
                    .filter_map(|j| {
                        if j["t"] == "generated" {
                            Some(Owned::G(j["number"].as_u64().unwrap_or(0) as u16, j["seed"].as_u64().unwrap_or(0)))
                        } else {
                            Value::from_json(j).and_then(|t| value_to_message(&t).ok()).map(Owned::M)
                        }
                    })
                    .collect()
            })
            .unwrap_or_default();
        let refs: Vec<StepRef> = owned.iter().map(|o| match o { Owned::M(m) => StepRef::Build(m), Owned::G(n, s) => StepRef::Generated(*n, *s) }).collect();
        if let Err((sig, msg)) = oracle_steps(&refs) {
            vs.push(Violation { property: "C12".into(), signature: sig, message: msg, case: c.clone() });
        }
        return CheckResult { evidence: ev, rule, assumptions, violations: vs };
    }
    let pool = pool(ctx.seed);
    let np = pool.len();
    let cases = ctx.n(1_000_000, 100_000_000);
    let idx = |i: u16| -> usize { (i as usize * np) >> 16 };
    // rep: 0..=3 none; 4|5 the target itself also sits earlier in the history (at position rep_pos); 6|7 a pool
    // neighbour of the target (usually the same type with other values) sits there
    let plan = |hist: &[u16], target: u16, rep: u8, rep_pos: u8| -> Vec<(Option<usize>, u16)> {
        // (Some(pool index) | None = generated call, raw history value)
        let mut v: Vec<(Option<usize>, u16)> = hist.iter().map(|i| if *i % 8 == 7 { (None, *i) } else { (Some(idx(*i)), *i) }).collect();
        let ti = idx(target);
        if rep >= 4 && !v.is_empty() {
            let at = rep_pos as usize % v.len();
            let which = if rep >= 6 { if ti + 1 < np && rep == 6 { ti + 1 } else { ti.saturating_sub(1) } } else { ti };
            v[at] = (Some(which), 0);
        }
        v.push((Some(ti), target));
        v
    };
    let (mut ev, vs) = pt_run(
        ctx,
        "c12",
        cases,
        || (prop::collection::vec(any::<u16>(), 0..12), any::<u16>(), 0u8..8, any::<u8>()),
        |(hist, target, rep, rep_pos): &(Vec<u16>, u16, u8, u8), ev| {
            let pl = plan(hist, *target, *rep, *rep_pos);
            let msgs: Vec<StepRef> = pl
                .iter()
                .map(|(pi, raw)| match pi {
                    Some(i) => StepRef::Build(&pool[*i].msg),
                    None => match step_of(pool, np, *raw) {
                        StepRef::Generated(n, sd) => StepRef::Generated(n, sd),
                        other => other,
                    },
                })
                .collect();
            let t = &pool[idx(*target)];
            let r = oracle_steps(&msgs);
            if let (Ok(()), Some(ev)) = (&r, ev) {
                let tl = t.fresh_len.unwrap_or(0);
                let before = &pl[..pl.len() - 1];
                let longer_before = before.iter().filter_map(|(pi, _)| *pi).any(|i| pool[i].fresh_len.map(|l| l > tl).unwrap_or(false));
                let failed_before = before.iter().filter_map(|(pi, _)| *pi).any(|i| pool[i].fresh_len.is_none());
                let same_before = before.iter().filter_map(|(pi, _)| *pi).any(|i| i == idx(*target));
                if before.iter().any(|(pi, _)| pi.is_none()) {
                    ev.class("history/has-build_generated_message-call");
                }
                if same_before && t.fresh_len.is_some() {
                    ev.class("history/target-was-built-earlier-on-this-builder");
                    if failed_before {
                        ev.class("history/target-built-earlier-and-a-refused-build-in-between-or-before");
                    }
                }
                if t.fresh_len.is_some() && (longer_before || failed_before || same_before) {
                    let mut key: Vec<u64> = pl.iter().map(|(pi, raw)| pi.map(|i| i as u64).unwrap_or(1 << 40 | *raw as u64)).collect();
                    key.push(pl.len() as u64);
                    ev.nontrivial_hash(hash_u64s(&key));
                    if longer_before {
                        ev.class("history/longer-frame-before-target");
                    }
                    if failed_before {
                        ev.class("history/refused-build-before-target");
                    }
                    if t.pad_bits && longer_before {
                        ev.class("history/target-with-zero-tail-bit-after-longer-frame");
                    }
                    if ev.want_sample() && pl.len() >= 4 {
                        let labels: Vec<&str> = pl.iter().map(|(pi, _)| pi.map(|i| pool[i].label.as_str()).unwrap_or("build_generated_message")).collect();
                        ev.sample(json!({"history":labels,"target_frame_len":tl}));
                    }
                } else {
                    ev.class("history/trivial");
                }
            }
            r
        },
        |(hist, target, rep, rep_pos)| {
            let pl = plan(hist, *target, *rep, *rep_pos);
            let trees: Vec<J> = pl
                .iter()
                .map(|(pi, raw)| match pi {
                    Some(i) => pool[*i].tree.to_json(),
                    None => match step_of(pool, np, *raw) {
                        StepRef::Generated(n, sd) => json!({"t":"generated","number":n,"seed":sd}),
                        StepRef::Build(_) => J::Null,
                    },
                })
                .collect();
            let labels: Vec<&str> = pl.iter().map(|(pi, _)| pi.map(|i| pool[i].label.as_str()).unwrap_or("build_generated_message")).collect();
            json!({"kind":"history","labels":labels,"history":trees})
        },
    );
    // systematic "retry without the offending element" histories: a list message whose k-th element makes the encoder
    // refuse it (every k, every failable leaf), then the same message cut to its first k elements (and to k-1, k+1)
    {
        let (rev, mut rvs) = retry_histories(ctx);
        ev.merge(rev);
        let (pev, pvs) = residue_histories(ctx);
        ev.merge(pev);
        rvs.extend(pvs);
        let (sev, svs) = sandwich_histories(ctx);
        ev.merge(sev);
        rvs.extend(svs);
        let mut vs2 = vs;
        for v in rvs {
            if !vs2.iter().any(|x: &Violation| x.signature == v.signature) {
                vs2.push(v);
            }
        }
        ev.extra.insert("pool_size".into(), json!(np));
        ev.extra.insert("pool_refused_by_fresh_builder".into(), json!(pool.iter().filter(|e| e.fresh_len.is_none()).count()));
        ev.extra.insert("pool_fails_late".into(), json!(pool.iter().filter(|e| e.label.contains("fails-late") || e.label.contains("duplicate-cell") || e.label.contains("128-chars")).count()));
        ev.extra.insert("pool_max_frame_len".into(), json!(pool.iter().filter_map(|e| e.fresh_len).max()));
        return CheckResult { evidence: ev, rule, assumptions, violations: vs2 };
    }
    #[allow(unreachable_code)]
    ev.extra.insert("pool_size".into(), json!(np));
    ev.extra.insert("pool_refused_by_fresh_builder".into(), json!(pool.iter().filter(|e| e.fresh_len.is_none()).count()));
    ev.extra.insert("pool_fails_late".into(), json!(pool.iter().filter(|e| e.label.contains("fails-late") || e.label.contains("duplicate-cell") || e.label.contains("128-chars")).count()));
    ev.extra.insert("pool_max_frame_len".into(), json!(pool.iter().filter_map(|e| e.fresh_len).max()));
    CheckResult { evidence: ev, rule, assumptions, violations: vs }
}
