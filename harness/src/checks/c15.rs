//! C15 — lists of every admissible length survive; counts and capacities agree.
use crate::bits::{get_bits, hex, set_bits, unhex};
use crate::frame::frame;
use crate::infra::*;
use crate::msggen::{self, corpus, count_field, decode_frame, value_to_message, TypeCorpus};
use crate::value::{schema_key, Path, Step, Value};
use rayon::prelude::*;
use rtcm_rs::prelude::*;
use serde_json::{json, Value as J};

pub const LIST_MSGS: &[u16] = &[
    1001, 1002, 1003, 1004, 1009, 1010, 1011, 1012, 1013, 1015, 1016, 1017, 1030, 1031, 1034, 1035, 1037, 1038, 1039, 1057, 1058, 1060, 1061, 1062, 1063, 1064, 1066, 1067, 1068, 1303, 1304,
];
pub const STRING_MSGS: &[u16] = &[1007, 1008, 1033, 1021, 1022, 1300, 1301, 1302];

/// the top-level list of a message tree (no list index on the path)
fn top_list_path(tree: &Value) -> Option<Path> {
    let mut all = Vec::new();
    tree.walk(&mut Vec::new(), &mut all);
    all.iter().find(|(p, n)| matches!(n, Value::Seq(_)) && !p.iter().any(|s| matches!(s, Step::Index(_)))).map(|(p, _)| p.clone())
}
fn first_string_path(tree: &Value) -> Option<Path> {
    let mut all = Vec::new();
    tree.walk(&mut Vec::new(), &mut all);
    all.iter().find(|(p, n)| matches!(n, Value::Str(_)) && !p.iter().any(|s| matches!(s, Step::Index(_)))).map(|(p, _)| p.clone())
}

/// element pool: every element of that list found in the type's bases (all on the field grids: they were decoded)
fn element_pool(tc: &TypeCorpus, key: &str) -> Vec<Value> {
    let mut pool: Vec<Value> = Vec::new();
    for b in &tc.bases {
        let mut all = Vec::new();
        b.walk(&mut Vec::new(), &mut all);
        for (p, n) in all {
            if let Value::Seq(items) = n {
                if schema_key(&p) == key {
                    for it in items {
                        if !pool.contains(it) && pool.len() < 400 {
                            pool.push(it.clone());
                        }
                    }
                }
            }
        }
    }
    pool
}

/// oracle for one message tree whose list has n elements: encodes, wire count == n, decodes to the same message
pub fn oracle_list(number: u16, tree: &Value, n: usize) -> Result<Vec<u8>, (String, String)> {
    let f = oracle_list_with(number, tree, n, None)?;
    // the same list on a builder whose first use was a refused (or long) message: count, elements and frame unchanged
    let pool = crate::checks::c12::pool(msggen_seed());
    let dist = crate::checks::c12::disturbers(msggen_seed());
    let d = &pool[dist[(n + number as usize) % dist.len()]];
    let f2 = oracle_list_with(number, tree, n, Some(&d.msg)).map_err(|(sig, msg)| (format!("{}(builder-used-before)", sig), format!("builder used before for [{}]: {}", d.label, msg)))?;
    if f2 != f {
        return Err((format!("c15:{}:frame-depends-on-builder-history", number), format!("{}: list of {} elements encodes differently on a builder used before for [{}]", number, n, d.label)));
    }
    Ok(f)
}
fn msggen_seed() -> u64 {
    std::env::var("VERIF_SEED").ok().and_then(|s| s.trim().parse::<i128>().ok()).map(|v| v as u64).unwrap_or(20261002)
}
pub fn oracle_list_with(number: u16, tree: &Value, n: usize, before: Option<&Message>) -> Result<Vec<u8>, (String, String)> {
    let (off, width, _cap) = count_field(number).ok_or_else(|| ("c15:harness".to_string(), "no layout".to_string()))?;
    let m = value_to_message(tree).map_err(|e| (format!("c15:{}:not-constructible", number), format!("{} elements do not fit the container: {}", n, e)))?;
    let r = catch(|| -> Result<Vec<u8>, (String, String)> {
        let built = match before {
            None => msggen::build(&m),
            Some(d) => {
                let mut b = MessageBuilder::new();
                let _ = b.build_message(d).map(|f| f.len());
                b.build_message(&m).map(|f| f.to_vec()).map_err(|e| format!("{:?}", e))
            }
        };
        let f = built.map_err(|e| (format!("c15:{}:refused", number), format!("{}: list of {} elements refused by the encoder: {}", number, n, e)))?;
        let p = &f[3..f.len() - 3];
        if p.len() > 1023 {
            return Err((format!("c15:{}:payload-too-long", number), format!("payload {} bytes", p.len())));
        }
        let wire = get_bits(p, off, width).ok_or_else(|| (format!("c15:{}:short-frame", number), "frame shorter than the count field".to_string()))? as usize;
        if wire != n {
            return Err((format!("c15:{}:count-field", number), format!("{}: {} elements but the count field (payload bit {}, {} bits) holds {}", number, n, off, width, wire)));
        }
        let back = decode_frame(&f).ok_or_else(|| ("c15:harness".to_string(), "own frame rejected".to_string()))?;
        if back != m {
            let name = crate::registry::variant_name(&back);
            let bt = msggen::message_to_value(&back);
            let got = top_list_path(&bt).and_then(|pp| bt.get(&pp).map(|v| if let Value::Seq(s) = v { s.len() } else { 0 }));
            return Err((
                format!("c15:{}:roundtrip", number),
                format!("{}: message with {} elements decodes to {} with {:?} list elements; not equal to the input", number, n, name, got),
            ));
        }
        Ok(f)
    });
    match r {
        Ok(x) => x,
        Err(p) => Err((panic_signature(&p), format!("{}: panic: {}", number, p))),
    }
}

/// a frame derived from a valid one must decode to Corrupt (or Empty for payloads under two bytes)
pub fn oracle_corrupt(payload: &[u8], why: &str) -> Result<(), (String, String)> {
    let f = frame(payload);
    let r = catch(|| decode_frame(&f));
    let number = get_bits(payload, 0, 12).unwrap_or(0);
    // the same frame inside a stream (a copy of itself, then filler, follows; two dead bytes precede): the frame the
    // scanner hands out must be judged on its own body, not on what follows it in the buffer
    if payload.len() >= 2 {
        let mut buf = vec![0x00u8, 0x11];
        buf.extend_from_slice(&f);
        buf.extend_from_slice(&f);
        buf.extend(std::iter::repeat(0x5Au8).take(200));
        let r2 = catch(|| {
            let (_, found) = next_msg_frame(&buf);
            found.map(|m| (m.get_message(), MessageFrame::new(&buf[2..]).map(|m2| m2.get_message())))
        });
        match r2 {
            Err(p) => return Err((panic_signature(&p), format!("panic: {}", p))),
            Ok(Some((Message::Corrupt, Ok(Message::Corrupt)))) => {}
            Ok(Some((a, b))) => {
                return Err((
                    format!("c15:{}:{}-accepted(in-a-stream)", number, why),
                    format!("{}: frame with {}, followed by more data: the scanner's frame decodes to {} and MessageFrame::new on the longer slice to {} instead of Corrupt", number, why, crate::registry::variant_name(&a), b.as_ref().map(crate::registry::variant_name).unwrap_or("an error")),
                ))
            }
            Ok(None) => return Err(("c15:harness".into(), "own frame not found in a stream".into())),
        }
    }
    match r {
        Err(p) => Err((panic_signature(&p), format!("panic: {}", p))),
        Ok(Some(Message::Corrupt)) => Ok(()),
        Ok(Some(Message::Empty)) if payload.len() < 2 => Ok(()),
        Ok(Some(m)) => Err((format!("c15:{}:{}-accepted", number, why), format!("{}: frame with {} decodes to {} instead of Corrupt", number, why, crate::registry::variant_name(&m)))),
        Ok(None) => Err(("c15:harness".into(), "own frame rejected".into())),
    }
}

/// 1029 text of exactly n UTF-8 bytes and at most 127 characters: encodes, wire counts agree, decodes to the same text
fn text_case(rng: &mut crate::rng::Rng, n: usize, rep: u64) -> Result<Vec<u8>, (String, String, J)> {
    use rtcm_rs::msg::Msg1029T;
    use rtcm_rs::util::ArrayString;
    // k three-byte characters + ASCII so that bytes == n and characters <= 127
    let kmin = if n > 127 { (n - 127 + 1) / 2 } else { 0 };
    let kmax = n / 3;
    let k = if kmax >= kmin { kmin + (rng.below((kmax - kmin + 1) as u64) as usize) * ((rep % 2) as usize) } else { kmin };
    let k = k.min(kmax);
    let mut chars: Vec<char> = Vec::new();
    for _ in 0..k {
        // three-byte characters from every lead byte 0xE0..=0xEF (0xED: U+D000..U+D7FF only, the surrogates are not characters)
        let lead = rng.below(16) as u32;
        let (lo, hi) = match lead {
            0 => (0x0800u32, 0x0FFFu32),
            13 => (0xD000, 0xD7FF),
            l => (l << 12, (l << 12) | 0xFFF),
        };
        chars.push(char::from_u32(lo + rng.below((hi - lo + 1) as u64) as u32).unwrap_or('\u{4e00}'));
    }
    let mut rest = n - 3 * k;
    // a few two-byte characters
    while rest >= 2 && rng.below(4) == 0 && chars.len() + rest - 1 <= 127 {
        chars.push(char::from_u32(0x80 + rng.below(0x780) as u32).unwrap());
        rest -= 2;
    }
    for _ in 0..rest {
        chars.push(char::from_u32(0x21 + rng.below(0x5E) as u32).unwrap());
    }
    rng.shuffle(&mut chars);
    // code points that text-handling code tends to treat specially, at the first / last position (same UTF-8 width as
    // the character they replace, so the byte length stays n)
    const SPECIAL3: &[u32] = &[0xFEFF, 0xFFFE, 0xFFFD, 0x200B, 0x200D, 0x200E, 0x202E, 0x2028, 0x2029, 0x3000, 0xFFFF, 0x0800];
    const SPECIAL2: &[u32] = &[0x0085, 0x00A0, 0x00AD, 0x0301, 0x07FF, 0x0080];
    const SPECIAL1: &[u32] = &[0x00, 0x09, 0x0A, 0x0D, 0x1B, 0x20, 0x22, 0x5C, 0x7F];
    if !chars.is_empty() && rep % 3 != 0 {
        let pos = if rep % 2 == 0 { 0 } else { chars.len() - 1 };
        let w = chars[pos].len_utf8();
        let pool: &[u32] = match w {
            3 => SPECIAL3,
            2 => SPECIAL2,
            1 => SPECIAL1,
            _ => &[],
        };
        if !pool.is_empty() {
            if let Some(c) = char::from_u32(pool[rng.below(pool.len() as u64) as usize]) {
                chars[pos] = c;
            }
        }
    }
    let s: String = chars.iter().collect();
    let case = json!({"kind":"text1029","chars":s.chars().map(|c| c as u32).collect::<Vec<u32>>()});
    if s.len() != n || s.chars().count() > 127 {
        return Ok(Vec::new()); // construction did not hit the target (only when n is not reachable); not a case
    }
    let text = ArrayString::<255>::from(s.as_str());
    if &*text != s.as_str() {
        return Err(("c15:1029:text-not-kept".into(), format!("1029: a text of {} bytes / {} characters (within the capacity) is stored as {} bytes", n, s.chars().count(), (&*text).len()), case));
    }
    let m = Message::Msg1029(Msg1029T { reference_station_id: 1, modified_julian_day_number: 2, seconds_of_day_s: 3, text_str: text });
    let f = msggen::build(&m).map_err(|e| ("c15:1029:refused".to_string(), format!("1029: text of {} bytes / {} characters refused: {}", n, s.chars().count(), e), case.clone()))?;
    let p = &f[3..f.len() - 3];
    let cw = get_bits(p, 57, 7).unwrap_or(999) as usize;
    let bw = get_bits(p, 64, 8).unwrap_or(999) as usize;
    if cw != s.chars().count() || bw != n {
        return Err(("c15:1029:count-field".into(), format!("1029: text of {} bytes / {} characters: wire counts {} / {}", n, s.chars().count(), bw, cw), case));
    }
    match decode_frame(&f) {
        Some(back) if back == m => Ok(f),
        Some(back) => Err(("c15:1029:roundtrip".into(), format!("1029: text of {} bytes decodes to {} (not equal to the input)", n, crate::registry::variant_name(&back)), case)),
        None => Err(("c15:harness".into(), "own frame rejected".into(), case)),
    }
}

fn replay_text(s: &str) -> Result<(), (String, String)> {
    use rtcm_rs::msg::Msg1029T;
    use rtcm_rs::util::ArrayString;
    let text = ArrayString::<255>::from(s);
    if &*text != s {
        return Err(("c15:1029:text-not-kept".into(), "text within the capacity not kept".into()));
    }
    let m = Message::Msg1029(Msg1029T { reference_station_id: 1, modified_julian_day_number: 2, seconds_of_day_s: 3, text_str: text });
    let f = msggen::build(&m).map_err(|e| ("c15:1029:refused".to_string(), e))?;
    match decode_frame(&f) {
        Some(back) if back == m => Ok(()),
        _ => Err(("c15:1029:roundtrip".into(), "1029 text does not round trip".into())),
    }
}

/// n characters with codes 1..=255: printable ASCII mostly, the Latin-1 high half, control characters; one time in three
/// in a padding style (all blanks / all one pad character, or a random text that begins or ends with blanks, 0xFF, 0x01,
/// '0' or 0xA4 - what fixed-width senders pad with)
fn lat1_string(rng: &mut crate::rng::Rng, n: usize) -> String {
    let any = |rng: &mut crate::rng::Rng| -> char {
        match rng.below(8) {
            0 | 1 => char::from_u32(0xA1 + rng.below(0x5E) as u32).unwrap(),
            2 => char::from_u32(1 + rng.below(255) as u32).unwrap(),
            _ => char::from_u32(0x20 + rng.below(0x5F) as u32).unwrap(),
        }
    };
    let mut v: Vec<char> = (0..n).map(|_| any(rng)).collect();
    if n > 0 && rng.below(3) == 0 {
        let pad = [' ', '\u{ff}', '\u{1}', '0', '\u{a4}', '\u{7f}'][rng.below(6) as usize];
        match rng.below(4) {
            0 => v.iter_mut().for_each(|c| *c = pad),
            1 => {
                let k = 1 + rng.below(n.min(4) as u64) as usize;
                for c in v.iter_mut().rev().take(k) {
                    *c = pad;
                }
            }
            2 => v[0] = pad,
            _ => {
                v[0] = pad;
                v[n - 1] = pad;
            }
        }
    }
    v.into_iter().collect()
}

pub fn run(ctx: &Ctx, replay: Option<&J>) -> CheckResult {
    let rule = "every list-bearing type of the pinned layout table (legacy observables 1001-1004/1009-1012, 1013, network RTK 1015-1017/1037-1039/1030/1031/1034/1035/1303/1304, SSR \
        1057/1058/1060-1064/1066-1068) x every n=0..=capacity with elements drawn from decoded zero/ones/random vectors in varying order; descriptor strings of 1007/1008/1033/1021/1022/\
        1300-1302 for every length 0..=31 (codes 1..=255; one in three padded with blanks, 0xFF, 0x01, '0', 0xA4 or 0x7F at the end, the start or throughout), the 1302 link list 0..=7 (links of random length, all empty, all at capacity, a single character among empty links), and the 1029 text for every byte length 0..=255 (1/2/3-byte characters, <=127 characters, special code points such as U+FEFF, U+200D, U+2028, NUL, backslash at the first / last position). oracle: build Ok, payload<=1023 bytes, count read from the wire at the pinned offset/width == n, decode == input \
        (same number of elements, same order), also when the builder's first use was a refused or long message. Every count value above the capacity that the field can express (1057/1063: 61-63, 1060/1066: 40-63, 8-bit string counts 32-255) with a long \
        body => Corrupt; every byte truncation of full-length and mid-length frames (re-framed, valid CRC) => Corrupt (Empty below 2 bytes), alone and inside a stream (dead bytes before, a copy and filler after). non-trivial = all (n in {0,1,cap-1,cap} and \
        damaged frames are classed); distinct = (type, n, repetition) / hash of damaged payload"
        .to_string();
    let assumptions = vec![
        "count-field offsets/widths/capacities pinned in the harness from the standard's layouts (msggen::count_field)".to_string(),
        "elements come from decoded frames, hence lie on the field grids and must come back equal".to_string(),
    ];
    let corp = corpus(ctx.seed);
    if let Some(c) = replay {
        let mut ev = Evidence::new();
        ev.eval();
        let mut vs = Vec::new();
        let r = if c["kind"] == "text1029" {
            let st: String = c["chars"].as_array().map(|a| a.iter().filter_map(|x| x.as_u64()).filter_map(|x| char::from_u32(x as u32)).collect()).unwrap_or_default();
            replay_text(&st)
        } else if c["kind"] == "damaged-payload" {
            oracle_corrupt(&unhex(c["payload"].as_str().unwrap_or("")).unwrap_or_default(), c["why"].as_str().unwrap_or("damage"))
        } else {
            match c.get("value").and_then(Value::from_json) {
                Some(t) => oracle_list(c["number"].as_u64().unwrap_or(0) as u16, &t, c["n"].as_u64().unwrap_or(0) as usize).map(|_| ()),
                None => Ok(()),
            }
        };
        if let Err((sig, msg)) = r {
            vs.push(Violation { property: "C15".into(), signature: sig, message: msg, case: c.clone() });
        }
        return CheckResult { evidence: ev, rule, assumptions, violations: vs };
    }
    let reps = ctx.n(100, 6000);
    let mut jobs: Vec<(u16, bool)> = LIST_MSGS.iter().map(|n| (*n, false)).collect();
    jobs.extend(STRING_MSGS.iter().map(|n| (*n, true)));
    let parts: Vec<(Evidence, Vec<Violation>)> = jobs
        .par_iter()
        .map(|(number, is_string)| {
            let number = *number;
            let mut ev = Evidence::new();
            ev.sample_cap = 1;
            let mut vs: Vec<Violation> = Vec::new();
            let tc = match corp.of(number) {
                Some(t) => t,
                None => {
                    ev.notes.push(format!("type {} not in this build", number));
                    return (ev, vs);
                }
            };
            let (off, width, cap) = count_field(number).unwrap();
            let mut rng = ctx.rng("c15", number as u64);
            let mut push = |vs: &mut Vec<Violation>, ev: &mut Evidence, sig: String, msg: String, case: J| {
                if ctx.is_known(&sig) {
                    ev.excluded_known += 1;
                } else if !vs.iter().any(|v| v.signature == sig) {
                    vs.push(Violation { property: "C15".into(), signature: sig, message: msg, case });
                }
            };
            let mut full_frames: Vec<Vec<u8>> = Vec::new();
            if !*is_string {
                let base0 = &tc.bases[0];
                let path = match top_list_path(base0) {
                    Some(p) => p,
                    None => {
                        ev.notes.push(format!("{}: no list found", number));
                        return (ev, vs);
                    }
                };
                let key = schema_key(&path);
                let pool = element_pool(tc, &key);
                let learned_cap = tc.seq_templates.get(&key).map(|t| t.1).unwrap_or(0);
                if pool.is_empty() {
                    ev.notes.push(format!("{}: no list elements available", number));
                    return (ev, vs);
                }
                if learned_cap != cap {
                    push(&mut vs, &mut ev, format!("c15:{}:capacity", number), format!("{}: container capacity {} but the pinned layout says {}", number, learned_cap, cap), json!({"kind":"capacity","number":number}));
                }
                for rep in 0..reps {
                    // header from different bases
                    let base = &tc.bases[(rep as usize) % tc.bases.len()];
                    for n in 0..=cap {
                        let mut tree = base.clone();
                        let start = rng.below(pool.len() as u64) as usize;
                        let stride = 1 + rng.below(pool.len() as u64) as usize;
                        let items: Vec<Value> = (0..n).map(|i| pool[(start + i * stride) % pool.len()].clone()).collect();
                        if let Some(Value::Seq(s)) = tree.get_mut(&path) {
                            *s = items;
                        }
                        ev.evaluations += 1;
                        match oracle_list(number, &tree, n) {
                            Ok(f) => {
                                ev.distinct_by_construction += 1;
                                let cls = if n == 0 { "n=0" } else if n == 1 { "n=1" } else if n == cap { "n=cap" } else if n + 1 == cap { "n=cap-1" } else { "n=mid" };
                                ev.class(&format!("list/{}", cls));
                                if n == cap || n == cap / 2 {
                                    full_frames.push(f.clone());
                                }
                                if n == cap && ev.want_sample() {
                                    ev.sample(json!({"number":number,"n":n,"capacity":cap,"count_at_bit":off,"count_width":width,"frame_len":f.len()}));
                                }
                            }
                            Err((sig, msg)) => push(&mut vs, &mut ev, sig, msg, json!({"kind":"list","number":number,"n":n,"value":tree.to_json()})),
                        }
                    }
                }
            } else {
                // strings: every Str leaf gets length n; the pinned count is the first string's
                let base = tc.bases.iter().max_by_key(|b| format!("{:?}", b).len()).unwrap();
                let first = first_string_path(base);
                for rep in 0..reps.max(2) {
                    for n in 0..=31usize {
                        let mut tree = base.clone();
                        let mut all = Vec::new();
                        base.walk(&mut Vec::new(), &mut all);
                        for (p, node) in &all {
                            if matches!(node, Value::Str(_)) {
                                // the other strings: random lengths, all empty, all at capacity (style rotates with rep and n)
                                let style = (rep as usize + n / 8) % 4;
                                let len = if Some(p) == first.as_ref() { n } else if style == 1 { 0 } else if style == 2 { 31 } else { rng.below(32) as usize };
                                *tree.get_mut(p).unwrap() = Value::Str(lat1_string(&mut rng, len));
                            }
                        }
                        // 1302: link list of every length
                        if number == 1302 {
                            if let Some(lp) = top_list_path(&tree) {
                                let tpl = tc.seq_templates.get(&schema_key(&lp)).map(|t| t.0.clone());
                                if let (Some(tpl), Some(Value::Seq(items))) = (tpl, tree.get_mut(&lp)) {
                                    let want = (n + rep as usize) % 8;
                                    // element extremes: every link empty (the shortest element there is), every link at
                                    // capacity, one single character among empty links, or random lengths
                                    let style = (rep as usize / 2 + n / 8) % 4;
                                    items.clear();
                                    for li in 0..want {
                                        let mut e = tpl.clone();
                                        let mut leaves = Vec::new();
                                        tpl.walk(&mut Vec::new(), &mut leaves);
                                        for (p, node) in leaves {
                                            if matches!(node, Value::Str(_)) {
                                                let len = match style {
                                                    1 => 0,
                                                    2 => 31,
                                                    3 => usize::from(li == want - 1),
                                                    _ => rng.below(32) as usize,
                                                };
                                                *e.get_mut(&p).unwrap() = Value::Str(lat1_string(&mut rng, len));
                                            }
                                        }
                                        items.push(e);
                                    }
                                }
                            }
                        }
                        ev.evaluations += 1;
                        match oracle_list(number, &tree, n) {
                            Ok(f) => {
                                ev.distinct_by_construction += 1;
                                ev.class(if n == 0 { "string/n=0" } else if n == 31 { "string/n=cap" } else { "string/n=mid" });
                                if n == 31 || n == 15 {
                                    full_frames.push(f);
                                }
                            }
                            Err((sig, msg)) => push(&mut vs, &mut ev, sig, msg, json!({"kind":"list","number":number,"n":n,"value":tree.to_json()})),
                        }
                    }
                }
            }
            // over-capacity counts on the wire
            let maxv = (1usize << width) - 1;
            if maxv > cap {
                for f in full_frames.iter().take(4) {
                    for v in cap + 1..=maxv {
                        let mut p = f[3..f.len() - 3].to_vec();
                        // long body so that a decoder without the capacity check would have data to read
                        let extra = rng.bytes_len(1, 1023usize.saturating_sub(p.len()).max(1));
                        if v % 2 == 0 {
                            p.extend(extra);
                            p.truncate(1023);
                        }
                        set_bits(&mut p, off, width, v as u64);
                        ev.evaluations += 1;
                        match oracle_corrupt(&p, "count-above-capacity") {
                            Ok(()) => {
                                ev.nontrivial_bytes(&p);
                                ev.class("damaged/count-above-capacity");
                            }
                            Err((sig, msg)) => push(&mut vs, &mut ev, sig, msg, json!({"kind":"damaged-payload","why":"count-above-capacity","payload":hex(&p)})),
                        }
                    }
                }
            }
            // truncations: every byte length for two frames in quick, all kept frames in thorough
            let take = if ctx.tier == Tier::Thorough { full_frames.len() } else { 2 };
            // prefer the longest frames
            full_frames.sort_by_key(|f| std::cmp::Reverse(f.len()));
            for f in full_frames.iter().take(take) {
                let p = &f[3..f.len() - 3];
                for k in 0..p.len() {
                    ev.evaluations += 1;
                    match oracle_corrupt(&p[..k], "truncated-body") {
                        Ok(()) => {
                            ev.nontrivial_bytes(&p[..k]);
                            ev.class("damaged/truncated");
                        }
                        Err((sig, msg)) => push(&mut vs, &mut ev, sig, msg, json!({"kind":"damaged-payload","why":"truncated-body","payload":hex(&p[..k])})),
                    }
                }
            }
            (ev, vs)
        })
        .collect();
    let mut ev = Evidence::new();
    let mut vs = Vec::new();
    for (e, v) in parts {
        ev.merge(e);
        vs.extend(v);
    }
    // 1029: the count-prefixed UTF-8 text (character count 7 bits @57, byte count 8 bits @64, capacity 255 bytes / 127 characters)
    {
        let mut rng = ctx.rng("c15-1029", 0);
        let mut full: Vec<Vec<u8>> = Vec::new();
        for rep in 0..reps.min(40) {
            for n in 0..=255usize {
                match text_case(&mut rng, n, rep) {
                    Ok(f) => {
                        ev.evaluations += 1;
                        ev.distinct_by_construction += 1;
                        ev.class(if n == 0 { "text1029/n=0" } else if n == 255 { "text1029/n=cap" } else { "text1029/n=mid" });
                        if n == 255 || n == 128 {
                            full.push(f);
                        }
                    }
                    Err((sig, msg, case)) => {
                        ev.evaluations += 1;
                        if ctx.is_known(&sig) {
                            ev.excluded_known += 1;
                        } else if !vs.iter().any(|v: &Violation| v.signature == sig) {
                            vs.push(Violation { property: "C15".into(), signature: sig, message: msg, case });
                        }
                    }
                }
            }
        }
        for f in full.iter().take(2) {
            let p = &f[3..f.len() - 3];
            for k in 0..p.len() {
                ev.evaluations += 1;
                match oracle_corrupt(&p[..k], "truncated-body") {
                    Ok(()) => {
                        ev.nontrivial_bytes(&p[..k]);
                        ev.class("damaged/truncated");
                    }
                    Err((sig, msg)) => {
                        if !vs.iter().any(|v| v.signature == sig) {
                            vs.push(Violation { property: "C15".into(), signature: sig, message: msg, case: json!({"kind":"damaged-payload","why":"truncated-body","payload":hex(&p[..k])}) });
                        }
                    }
                }
            }
        }
    }
    ev.extra.insert("list_types".into(), json!(LIST_MSGS.len()));
    ev.extra.insert("string_types".into(), json!(STRING_MSGS.len()));
    vs.truncate(10);
    CheckResult { evidence: ev, rule, assumptions, violations: vs }
}
