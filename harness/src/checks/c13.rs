//! C13 — a frame's interpretation does not depend on the bytes that follow it.
use crate::bits::{get_bits, hex, unhex};
use crate::frame::frame_with_reserved;
use crate::infra::*;
use rayon::prelude::*;
use rtcm_rs::prelude::*;
use serde_json::{json, Value as J};

#[derive(PartialEq, Debug, Clone)]
struct Obs {
    frame_len: usize,
    data_len: usize,
    data: Vec<u8>,
    frame_data: Vec<u8>,
    crc: u32,
    number: Option<u16>,
    message: String,
}

fn observe(s: &[u8]) -> Result<Obs, String> {
    match MessageFrame::new(s) {
        Ok(m) => Ok(Obs {
            frame_len: m.frame_len(),
            data_len: m.data_len(),
            data: m.data().to_vec(),
            frame_data: m.frame_data().to_vec(),
            crc: m.crc(),
            number: m.message_number(),
            message: format!("{:?}", m.get_message()),
        }),
        Err(e) => Err(format!("{:?}", e)),
    }
}

pub fn oracle(frame: &[u8], suffix: &[u8]) -> Result<(), (String, String)> {
    oracle_with(frame, suffix, suffix.len() <= 64 || (suffix.len() <= 4200 && !suffix.contains(&0xD3)))
}
/// `iter_view`: also look the frame up through MsgFrameIter (first / last / nth / count); costs several scans of the buffer
pub fn oracle_with(frame: &[u8], suffix: &[u8], iter_view: bool) -> Result<(), (String, String)> {
    let l = frame.len() - 6;
    let a = observe(frame).map_err(|e| ("c13:valid-frame-rejected".to_string(), format!("frame alone rejected: {}", e)))?;
    let mut ext = frame.to_vec();
    ext.extend_from_slice(suffix);
    let b = observe(&ext).map_err(|e| ("c13:valid-frame-rejected-with-suffix".to_string(), format!("frame + suffix rejected: {}", e)))?;
    let expect_number = if l >= 2 { Some(get_bits(&frame[3..], 0, 12).unwrap() as u16) } else { None };
    for (o, which) in [(&a, "without suffix"), (&b, "with suffix")] {
        if o.number != expect_number {
            return Err((
                "c13:message-number".into(),
                format!("payload length {}: message_number {:?} {} but the first 12 payload bits give {:?}", l, o.number, which, expect_number),
            ));
        }
        if l < 2 && o.message != "Empty" {
            return Err(("c13:empty-not-empty".into(), format!("payload length {} decodes to {} {}", l, o.message.chars().take(60).collect::<String>(), which)));
        }
    }
    // the same frame looked up through the scanner: delivered from offset 0 with the same bytes whatever follows
    for (buf, which) in [(&frame.to_vec(), "without suffix"), (&ext, "with suffix")] {
        let (c, f) = next_msg_frame(buf);
        match f {
            Some(m) if c == l + 6 && m.frame_data() == frame && m.message_number() == expect_number => {}
            Some(m) => {
                return Err(("c13:scanner-frame-depends-on-suffix".into(), format!("scanner {}: consumed {} and delivered a {}-byte frame (expected the {}-byte frame at offset 0)", which, c, m.frame_len(), l + 6)));
            }
            None => return Err(("c13:scanner-frame-depends-on-suffix".into(), format!("scanner {}: valid frame at offset 0 not delivered (consumed {})", which, c))),
        }
    }
    // the same frame looked up through the frame iterator: first item, and - when nothing deliverable follows it - the
    // last item, the only item and the count (an adaptor override that looks at the end of the buffer must agree)
    if iter_view {
        let (rf, _) = crate::frame::ref_scan_all(&ext);
        let mut it = MsgFrameIter::new(&ext);
        match (&mut it).next() {
            Some(m) if m.frame_data() == frame && m.message_number() == expect_number => {}
            _ => return Err(("c13:iterator-frame-depends-on-suffix".into(), format!("MsgFrameIter over frame + {} suffix bytes does not yield the frame first", suffix.len()))),
        }
        if rf.len() == 1 {
            let mut it2 = MsgFrameIter::new(&ext);
            let last = (&mut it2).last();
            let mut it3 = MsgFrameIter::new(&ext);
            let n = (&mut it3).count();
            let mut it4 = MsgFrameIter::new(&ext);
            let nth0 = (&mut it4).nth(0);
            let ok = |m: &Option<MessageFrame>| m.as_ref().map(|m| m.frame_data() == frame && m.message_number() == expect_number && format!("{:?}", m.get_message()) == b.message).unwrap_or(false);
            if !ok(&last) || !ok(&nth0) || n != 1 {
                return Err((
                    "c13:iterator-frame-depends-on-suffix".into(),
                    format!("frame followed by {} bytes that hold no further frame: last() / nth(0) / count() = {:?} / {:?} / {} instead of this frame, this frame, 1", suffix.len(), last.map(|m| m.frame_len()), nth0.map(|m| m.frame_len()), n),
                ));
            }
        }
    }
    // the frame behind a few dead bytes (and followed by the suffix): found by the scanner with the same attributes
    {
        let k = 1 + (suffix.len() + l) % 4;
        let mut buf: Vec<u8> = (0..k).map(|i| [0x00u8, 0x55, 0xFF, 0x3D][(i + l) % 4]).collect();
        buf.extend_from_slice(&ext);
        let (c, f) = next_msg_frame(&buf);
        match f {
            Some(m) if c == k + l + 6 && m.frame_data() == frame && m.message_number() == expect_number && format!("{:?}", m.get_message()) == a.message => {}
            Some(m) => {
                return Err((
                    "c13:scanner-frame-depends-on-position".into(),
                    format!("the frame behind {} dead byte(s) and before {} suffix byte(s): scanner consumed {} and delivered a {}-byte frame with number {:?} (alone: {} bytes, number {:?})", k, suffix.len(), c, m.frame_len(), m.message_number(), l + 6, expect_number),
                ))
            }
            None => return Err(("c13:scanner-frame-depends-on-position".into(), format!("the frame behind {} dead byte(s) and before {} suffix byte(s) is not delivered (consumed {})", k, suffix.len(), c))),
        }
    }
    // the same bytes at another memory offset (slice start not aligned like the Vec's allocation) and looked at twice
    {
        let k = (suffix.len() + l) % 7 + 1;
        let mut shifted = vec![0xAAu8; k];
        shifted.extend_from_slice(&ext);
        let c = observe(&shifted[k..]).map_err(|e| ("c13:valid-frame-rejected-with-suffix".to_string(), format!("frame + suffix at slice offset {} rejected: {}", k, e)))?;
        let c2 = observe(&shifted[k..]).map_err(|e| ("c13:valid-frame-rejected-with-suffix".to_string(), format!("frame + suffix rejected the second time: {}", e)))?;
        if c != b || c2 != b {
            return Err(("c13:depends-on-slice-position".into(), format!("the same frame + suffix observed from a slice starting {} byte(s) into an allocation (or observed twice) gives different attributes", k)));
        }
    }
    if a != b {
        let what = if a.number != b.number {
            "message_number"
        } else if a.message != b.message {
            "decoded message"
        } else if a.data != b.data || a.data_len != b.data_len {
            "payload"
        } else if a.frame_data != b.frame_data || a.frame_len != b.frame_len {
            "frame data"
        } else {
            "crc"
        };
        return Err(("c13:suffix-changes-".to_string() + &what.replace(' ', "-"), format!("appending {} byte(s) changed the {}", suffix.len(), what)));
    }
    Ok(())
}

fn viol(sig: String, msg: String, f: &[u8], suf: &[u8]) -> Violation {
    Violation { property: "C13".into(), signature: sig, message: msg, case: json!({"kind":"frame+suffix","frame":hex(f),"suffix":hex(suf)}) }
}

pub fn run(ctx: &Ctx, replay: Option<&J>) -> CheckResult {
    let rule = "valid frames of every payload length L=0..=1023 (random payloads, random reserved bits) plus every golden frame (typed decode) and structured / hostile frames of every supported number (incl. 1029 frames whose byte counter exceeds the payload) x \
        suffixes {1,2,3 bytes, many random bytes, another valid frame, a copy of the frame itself, a damaged copy, >1029 random bytes, 0..4200 bytes without any 0xD3, 0xD3 runs, 0x00/0xFF runs, and for every length suffixes that bring the total to 65535, 65536, 65537, 65536+L+5, 65536+L+6, 131072, 131075 and 196608+ bytes}; oracle: (frame_len, data_len, payload, \
        frame bytes, crc, message_number, Debug of decoded message) identical with and without suffix, message_number == first 12 payload bits \
        iff L>=2 else None (then decode is Empty); next_msg_frame delivers the same frame from offset 0 with and without the suffix and from behind 1..4 dead bytes, MsgFrameIter yields it first and - when the suffix holds no further frame - as last(), nth(0) and the only item (one payload in three carries the image of a complete frame); the same bytes observed from a slice at another memory offset, and observed twice, give the same attributes. non-trivial = non-empty suffix; distinct = hash(frame, suffix)"
        .to_string();
    let assumptions = vec!["frames are built by the harness' own framing code with its own CRC".to_string()];
    if let Some(case) = replay {
        let f = unhex(case["frame"].as_str().unwrap_or("")).unwrap_or_default();
        let s = unhex(case["suffix"].as_str().unwrap_or("")).unwrap_or_default();
        let mut ev = Evidence::new();
        ev.eval();
        let mut vs = Vec::new();
        if f.len() >= 6 {
            if let Err((sig, msg)) = oracle(&f, &s) {
                vs.push(viol(sig, msg, &f, &s));
            }
        }
        return CheckResult { evidence: ev, rule, assumptions, violations: vs };
    }
    let golden = crate::pool::golden_frames();
    let reps = ctx.n(200, 12000) as usize;
    let n_jobs = 1024 + golden.len();
    let parts: Vec<(Evidence, Vec<Violation>)> = (0..n_jobs)
        .into_par_iter()
        .map(|job| {
            let mut ev = Evidence::new();
            ev.sample_cap = 1;
            let mut vs = Vec::new();
            let mut rng = ctx.rng("c13", job as u64);
            let reps_here = if job < 8 { reps * 8 } else { reps };
            for rep in 0..reps_here {
                let (f, l) = if job < 1024 {
                    let l = job;
                    let cls = if rep == 0 { 2 } else { rng.below(6) };
                    let p = crate::pool::payload_of_class(&mut rng, l, cls);
                    {
                        let rs = if rep % 2 == 0 { 0 } else { rng.below(64) as u8 };
                        (frame_with_reserved(&p, rs), l)
                    }
                } else {
                    let f = golden[job - 1024].1.clone();
                    let l = f.len() - 6;
                    (f, l)
                };
                // every third repetition: the payload carries the image of a complete valid frame (a frame inside a frame)
                let (f, l) = if job < 1024 && l >= 8 && rep % 3 == 1 {
                    let mut p = f[3..3 + l].to_vec();
                    let il = rng.below((l - 6).min(40) as u64) as usize;
                    let inner = crate::pool::random_frame(&mut rng, il, false);
                    let at = rng.below((l - inner.len() + 1) as u64) as usize;
                    p[at..at + inner.len()].copy_from_slice(&inner);
                    (frame_with_reserved(&p, f[1] >> 2), l)
                } else {
                    (f, l)
                };
                let ol = rng.below(30) as usize;
                let other = crate::pool::random_frame(&mut rng, ol, false);
                let quiet_len = rng.below(4200) as usize;
                let quiet: Vec<u8> = rng.bytes(quiet_len).into_iter().map(|b| if b == 0xD3 { 0x3D } else { b }).collect();
                let suffixes: Vec<Vec<u8>> = vec![
                    vec![rng.below(256) as u8],
                    rng.bytes(2),
                    rng.bytes(3),
                    rng.bytes_len(4, 60),
                    other,
                    vec![0xD3; 1 + rng.below(8) as usize],
                    f.clone(),
                    rng.bytes_len(1030, 200),
                    { let mut d = f.clone(); let n = d.len(); d[n / 2] ^= 0x10; d },
                    vec![0xFF; 1 + rng.below(5) as usize],
                    vec![0x00; 1 + rng.below(5) as usize],
                    golden.get(rng.below(golden.len().max(1) as u64) as usize).map(|g| g.1.clone()).unwrap_or_else(|| vec![1, 2, 3]),
                    quiet,
                ];
                for suf in &suffixes {
                    ev.eval();
                    match oracle(&f, suf) {
                        Ok(()) => {
                            let mut key = f.clone();
                            key.push(0xAA);
                            key.extend_from_slice(suf);
                            ev.nontrivial_bytes(&key);
                            ev.class(if l < 2 { "L<2" } else if job >= 1024 { "golden-typed" } else { "L>=2" });
                        }
                        Err((sig, msg)) => {
                            if ctx.is_known(&sig) {
                                ev.excluded_known += 1;
                            } else if vs.len() < 2 {
                                vs.push(viol(sig, msg, &f, suf));
                            }
                        }
                    }
                }
                if rep == 0 {
                    // long suffixes: total lengths around the multiples of 65536 (a length kept in 16 bits wraps there)
                    let fl = f.len();
                    for total in [65_535usize, 65_536, 65_537, 65_536 + fl - 1, 65_536 + fl, 131_072, 131_072 + 3, 196_608 + fl / 2] {
                        if total <= fl {
                            continue;
                        }
                        let mut suf = vec![0u8; total - fl];
                        let fill = rng.below(3);
                        for (i, b) in suf.iter_mut().enumerate() {
                            *b = match fill {
                                0 => 0,
                                1 => (i as u8).wrapping_mul(31).wrapping_add(7),
                                _ => 0xD3,
                            };
                        }
                        ev.eval();
                        match oracle(&f, &suf) {
                            Ok(()) => {
                                ev.nontrivial_hash(hash_u64s(&[l as u64, total as u64, fill, job as u64]));
                                ev.class("suffix-reaching-64KiB-multiples");
                            }
                            Err((sig, msg)) => {
                                if ctx.is_known(&sig) {
                                    ev.excluded_known += 1;
                                } else if vs.len() < 2 {
                                    vs.push(viol(format!("{}(long-suffix)", sig), format!("total length {}: {}", total, msg), &f, &suf));
                                }
                            }
                        }
                    }
                }
                if rep == 0 && (job % 211 == 0 || job < 2) {
                    ev.sample(json!({"L":l,"frame_prefix":hex(&f[..f.len().min(10)]),"suffix_lens":suffixes.iter().map(|s| s.len()).collect::<Vec<_>>()}));
                }
            }
            (ev, vs)
        })
        .collect();
    let mut ev = Evidence::new();
    let mut vs = Vec::new();
    for (e, v) in parts {
        ev.merge(e);
        vs.extend(v);
    }
    // structured and hostile frames of every supported message number (counts beyond the body, text byte counters beyond the
    // payload, truncated bodies ...) followed by suffixes that look like more message body (ASCII text, zeros, ones, a copy)
    {
        let nums: Vec<u16> = crate::registry::MSG_TABLE.iter().map(|r| r.number).collect();
        let per = ctx.n(400, 12_000);
        let sparts: Vec<(Evidence, Vec<Violation>)> = nums
            .par_iter()
            .map(|n| {
                let mut ev = Evidence::new();
                ev.sample_cap = 0;
                let mut vs = Vec::new();
                let mut rng = ctx.rng("c13-structured", *n as u64);
                let reps = if *n == 1029 { per * 20 } else { per };
                for _ in 0..reps {
                    let (f, class, _) = crate::msggen::any_frame(&mut rng, *n, &[]);
                    let text: Vec<u8> = (0..300).map(|i| b"The quick brown fox 0123456789 "[i % 31]).collect();
                    let sufs: [Vec<u8>; 4] = [text, vec![0u8; 64], vec![0xFFu8; 64], f.clone()];
                    let suf = &sufs[rng.below(4) as usize];
                    ev.evaluations += 1;
                    let r = catch(|| oracle(&f, suf));
                    let r = match r {
                        Ok(r) => r,
                        Err(p) => Err((panic_signature(&p), format!("panic: {}", p))),
                    };
                    match r {
                        Ok(()) => {
                            let mut key = f.clone();
                            key.push(suf.len() as u8);
                            ev.nontrivial_bytes(&key);
                            if ev.evaluations % 32 == 0 {
                                ev.class(&format!("structured/{}", class));
                            }
                        }
                        Err((sig, msg)) => {
                            if vs.is_empty() {
                                vs.push(viol(sig, msg, &f, suf));
                            }
                        }
                    }
                }
                (ev, vs)
            })
            .collect();
        for (e, v) in sparts {
            ev.merge(e);
            for x in v {
                if !vs.iter().any(|y: &Violation| y.signature == x.signature) {
                    vs.push(x);
                }
            }
        }
    }
    vs.truncate(5);
    ev.extra.insert("payload_lengths_enumerated".into(), json!("0..=1023 (all) + golden frames"));
    CheckResult { evidence: ev, rule, assumptions, violations: vs }
}
