//! A self-describing in-memory serde data model (`Value`) with a Serializer and a coercive Deserializer.
//! * C20 uses it as the "self-describing data model" (exact for f32/f64/char/u64; no text format involved).
//! * C01/C09/C12 use it as a type-directed generic mutator: serialise a Message to a tree, edit leaves / lists,
//!   deserialise back into a Message. The serde impls are only the construction vehicle there.
use serde::de::{self, DeserializeSeed, EnumAccess, IntoDeserializer, MapAccess, SeqAccess, VariantAccess, Visitor};
use serde::ser::{self, Serialize};
use std::fmt;

#[derive(Clone, Debug, PartialEq)]
pub enum Value {
    Bool(bool),
    U8(u8),
    U16(u16),
    U32(u32),
    U64(u64),
    I8(i8),
    I16(i16),
    I32(i32),
    I64(i64),
    F32(f32),
    F64(f64),
    Char(char),
    Str(String),
    Bytes(Vec<u8>),
    Unit,
    None,
    Some(Box<Value>),
    Seq(Vec<Value>),
    Tuple(Vec<Value>),
    UnitStruct(&'static str),
    Newtype(&'static str, Box<Value>),
    TupleStruct(&'static str, Vec<Value>),
    Struct(&'static str, Vec<(&'static str, Value)>),
    UnitVariant(&'static str, &'static str),
    NewtypeVariant(&'static str, &'static str, Box<Value>),
    TupleVariant(&'static str, &'static str, Vec<Value>),
    StructVariant(&'static str, &'static str, Vec<(&'static str, Value)>),
    Map(Vec<(Value, Value)>),
}

#[derive(Debug, Clone)]
pub struct VErr(pub String);
impl fmt::Display for VErr {
    fn fmt(&self, f: &mut fmt::Formatter) -> fmt::Result {
        f.write_str(&self.0)
    }
}
impl std::error::Error for VErr {}
impl ser::Error for VErr {
    fn custom<T: fmt::Display>(msg: T) -> Self {
        VErr(msg.to_string())
    }
}
impl de::Error for VErr {
    fn custom<T: fmt::Display>(msg: T) -> Self {
        VErr(msg.to_string())
    }
}

pub fn to_value<T: Serialize + ?Sized>(t: &T) -> Result<Value, VErr> {
    t.serialize(Ser)
}
pub fn from_value<'de, T: de::Deserialize<'de>>(v: &'de Value) -> Result<T, VErr> {
    T::deserialize(De(v))
}

// ------------------------------------------------------------------------------------------------
// Serializer
// ------------------------------------------------------------------------------------------------
pub struct Ser;
pub struct SerSeq {
    items: Vec<Value>,
    kind: SeqKind,
}
enum SeqKind {
    Seq,
    Tuple,
    TupleStruct(&'static str),
    TupleVariant(&'static str, &'static str),
}
pub struct SerStruct {
    fields: Vec<(&'static str, Value)>,
    name: &'static str,
    variant: Option<&'static str>,
}
pub struct SerMap {
    items: Vec<(Value, Value)>,
    key: Option<Value>,
}

impl ser::Serializer for Ser {
    type Ok = Value;
    type Error = VErr;
    type SerializeSeq = SerSeq;
    type SerializeTuple = SerSeq;
    type SerializeTupleStruct = SerSeq;
    type SerializeTupleVariant = SerSeq;
    type SerializeMap = SerMap;
    type SerializeStruct = SerStruct;
    type SerializeStructVariant = SerStruct;

    fn serialize_bool(self, v: bool) -> Result<Value, VErr> {
        Ok(Value::Bool(v))
    }
    fn serialize_i8(self, v: i8) -> Result<Value, VErr> {
        Ok(Value::I8(v))
    }
    fn serialize_i16(self, v: i16) -> Result<Value, VErr> {
        Ok(Value::I16(v))
    }
    fn serialize_i32(self, v: i32) -> Result<Value, VErr> {
        Ok(Value::I32(v))
    }
    fn serialize_i64(self, v: i64) -> Result<Value, VErr> {
        Ok(Value::I64(v))
    }
    fn serialize_u8(self, v: u8) -> Result<Value, VErr> {
        Ok(Value::U8(v))
    }
    fn serialize_u16(self, v: u16) -> Result<Value, VErr> {
        Ok(Value::U16(v))
    }
    fn serialize_u32(self, v: u32) -> Result<Value, VErr> {
        Ok(Value::U32(v))
    }
    fn serialize_u64(self, v: u64) -> Result<Value, VErr> {
        Ok(Value::U64(v))
    }
    fn serialize_f32(self, v: f32) -> Result<Value, VErr> {
        Ok(Value::F32(v))
    }
    fn serialize_f64(self, v: f64) -> Result<Value, VErr> {
        Ok(Value::F64(v))
    }
    fn serialize_char(self, v: char) -> Result<Value, VErr> {
        Ok(Value::Char(v))
    }
    fn serialize_str(self, v: &str) -> Result<Value, VErr> {
        Ok(Value::Str(v.to_string()))
    }
    fn serialize_bytes(self, v: &[u8]) -> Result<Value, VErr> {
        Ok(Value::Bytes(v.to_vec()))
    }
    fn serialize_none(self) -> Result<Value, VErr> {
        Ok(Value::None)
    }
    fn serialize_some<T: ?Sized + Serialize>(self, value: &T) -> Result<Value, VErr> {
        Ok(Value::Some(Box::new(value.serialize(Ser)?)))
    }
    fn serialize_unit(self) -> Result<Value, VErr> {
        Ok(Value::Unit)
    }
    fn serialize_unit_struct(self, name: &'static str) -> Result<Value, VErr> {
        Ok(Value::UnitStruct(name))
    }
    fn serialize_unit_variant(self, name: &'static str, _i: u32, variant: &'static str) -> Result<Value, VErr> {
        Ok(Value::UnitVariant(name, variant))
    }
    fn serialize_newtype_struct<T: ?Sized + Serialize>(self, name: &'static str, value: &T) -> Result<Value, VErr> {
        Ok(Value::Newtype(name, Box::new(value.serialize(Ser)?)))
    }
    fn serialize_newtype_variant<T: ?Sized + Serialize>(self, name: &'static str, _i: u32, variant: &'static str, value: &T) -> Result<Value, VErr> {
        Ok(Value::NewtypeVariant(name, variant, Box::new(value.serialize(Ser)?)))
    }
    fn serialize_seq(self, len: Option<usize>) -> Result<SerSeq, VErr> {
        Ok(SerSeq { items: Vec::with_capacity(len.unwrap_or(0)), kind: SeqKind::Seq })
    }
    fn serialize_tuple(self, len: usize) -> Result<SerSeq, VErr> {
        Ok(SerSeq { items: Vec::with_capacity(len), kind: SeqKind::Tuple })
    }
    fn serialize_tuple_struct(self, name: &'static str, len: usize) -> Result<SerSeq, VErr> {
        Ok(SerSeq { items: Vec::with_capacity(len), kind: SeqKind::TupleStruct(name) })
    }
    fn serialize_tuple_variant(self, name: &'static str, _i: u32, variant: &'static str, len: usize) -> Result<SerSeq, VErr> {
        Ok(SerSeq { items: Vec::with_capacity(len), kind: SeqKind::TupleVariant(name, variant) })
    }
    fn serialize_map(self, _len: Option<usize>) -> Result<SerMap, VErr> {
        Ok(SerMap { items: Vec::new(), key: None })
    }
    fn serialize_struct(self, name: &'static str, len: usize) -> Result<SerStruct, VErr> {
        Ok(SerStruct { fields: Vec::with_capacity(len), name, variant: None })
    }
    fn serialize_struct_variant(self, name: &'static str, _i: u32, variant: &'static str, len: usize) -> Result<SerStruct, VErr> {
        Ok(SerStruct { fields: Vec::with_capacity(len), name, variant: Some(variant) })
    }
    fn collect_str<T: ?Sized + fmt::Display>(self, value: &T) -> Result<Value, VErr> {
        Ok(Value::Str(value.to_string()))
    }
    fn is_human_readable(&self) -> bool {
        false
    }
}
impl SerSeq {
    fn finish(self) -> Value {
        match self.kind {
            SeqKind::Seq => Value::Seq(self.items),
            SeqKind::Tuple => Value::Tuple(self.items),
            SeqKind::TupleStruct(n) => Value::TupleStruct(n, self.items),
            SeqKind::TupleVariant(n, v) => Value::TupleVariant(n, v, self.items),
        }
    }
}
impl ser::SerializeSeq for SerSeq {
    type Ok = Value;
    type Error = VErr;
    fn serialize_element<T: ?Sized + Serialize>(&mut self, value: &T) -> Result<(), VErr> {
        self.items.push(value.serialize(Ser)?);
        Ok(())
    }
    fn end(self) -> Result<Value, VErr> {
        Ok(self.finish())
    }
}
impl ser::SerializeTuple for SerSeq {
    type Ok = Value;
    type Error = VErr;
    fn serialize_element<T: ?Sized + Serialize>(&mut self, value: &T) -> Result<(), VErr> {
        self.items.push(value.serialize(Ser)?);
        Ok(())
    }
    fn end(self) -> Result<Value, VErr> {
        Ok(self.finish())
    }
}
impl ser::SerializeTupleStruct for SerSeq {
    type Ok = Value;
    type Error = VErr;
    fn serialize_field<T: ?Sized + Serialize>(&mut self, value: &T) -> Result<(), VErr> {
        self.items.push(value.serialize(Ser)?);
        Ok(())
    }
    fn end(self) -> Result<Value, VErr> {
        Ok(self.finish())
    }
}
impl ser::SerializeTupleVariant for SerSeq {
    type Ok = Value;
    type Error = VErr;
    fn serialize_field<T: ?Sized + Serialize>(&mut self, value: &T) -> Result<(), VErr> {
        self.items.push(value.serialize(Ser)?);
        Ok(())
    }
    fn end(self) -> Result<Value, VErr> {
        Ok(self.finish())
    }
}
impl ser::SerializeMap for SerMap {
    type Ok = Value;
    type Error = VErr;
    fn serialize_key<T: ?Sized + Serialize>(&mut self, key: &T) -> Result<(), VErr> {
        self.key = Some(key.serialize(Ser)?);
        Ok(())
    }
    fn serialize_value<T: ?Sized + Serialize>(&mut self, value: &T) -> Result<(), VErr> {
        let k = self.key.take().ok_or_else(|| VErr("value without key".into()))?;
        self.items.push((k, value.serialize(Ser)?));
        Ok(())
    }
    fn end(self) -> Result<Value, VErr> {
        Ok(Value::Map(self.items))
    }
}
impl ser::SerializeStruct for SerStruct {
    type Ok = Value;
    type Error = VErr;
    fn serialize_field<T: ?Sized + Serialize>(&mut self, key: &'static str, value: &T) -> Result<(), VErr> {
        self.fields.push((key, value.serialize(Ser)?));
        Ok(())
    }
    fn end(self) -> Result<Value, VErr> {
        Ok(match self.variant {
            None => Value::Struct(self.name, self.fields),
            Some(v) => Value::StructVariant(self.name, v, self.fields),
        })
    }
}
impl ser::SerializeStructVariant for SerStruct {
    type Ok = Value;
    type Error = VErr;
    fn serialize_field<T: ?Sized + Serialize>(&mut self, key: &'static str, value: &T) -> Result<(), VErr> {
        self.fields.push((key, value.serialize(Ser)?));
        Ok(())
    }
    fn end(self) -> Result<Value, VErr> {
        Ok(match self.variant {
            None => Value::Struct(self.name, self.fields),
            Some(v) => Value::StructVariant(self.name, v, self.fields),
        })
    }
}

// ------------------------------------------------------------------------------------------------
// Deserializer (coercive for numbers so that a mutator can write any numeric leaf into any numeric slot)
// ------------------------------------------------------------------------------------------------
#[derive(Clone, Copy)]
pub struct De<'a>(pub &'a Value);

#[derive(Clone, Copy, Debug)]
enum Num {
    I(i128),
    F(f64),
}
fn num_of(v: &Value) -> Option<Num> {
    Some(match v {
        Value::Bool(b) => Num::I(*b as i128),
        Value::U8(x) => Num::I(*x as i128),
        Value::U16(x) => Num::I(*x as i128),
        Value::U32(x) => Num::I(*x as i128),
        Value::U64(x) => Num::I(*x as i128),
        Value::I8(x) => Num::I(*x as i128),
        Value::I16(x) => Num::I(*x as i128),
        Value::I32(x) => Num::I(*x as i128),
        Value::I64(x) => Num::I(*x as i128),
        Value::F32(x) => Num::F(*x as f64),
        Value::F64(x) => Num::F(*x),
        Value::Char(c) => Num::I(*c as u32 as i128),
        Value::Some(b) | Value::Newtype(_, b) => return num_of(b),
        _ => return None,
    })
}
macro_rules! de_int {
    ($fn_name:ident, $visit:ident, $t:ty) => {
        fn $fn_name<V: Visitor<'de>>(self, visitor: V) -> Result<V::Value, VErr> {
            match num_of(self.0) {
                Some(Num::I(i)) => visitor.$visit(i.clamp(<$t>::MIN as i128, <$t>::MAX as i128) as $t),
                Some(Num::F(f)) => visitor.$visit(f as $t),
                None => Err(VErr(format!("expected a number for {}, found {:?}", stringify!($t), kind_name(self.0)))),
            }
        }
    };
}

fn kind_name(v: &Value) -> &'static str {
    match v {
        Value::Bool(_) => "bool",
        Value::U8(_) | Value::U16(_) | Value::U32(_) | Value::U64(_) => "unsigned",
        Value::I8(_) | Value::I16(_) | Value::I32(_) | Value::I64(_) => "signed",
        Value::F32(_) | Value::F64(_) => "float",
        Value::Char(_) => "char",
        Value::Str(_) => "str",
        Value::Bytes(_) => "bytes",
        Value::Unit => "unit",
        Value::None => "none",
        Value::Some(_) => "some",
        Value::Seq(_) => "seq",
        Value::Tuple(_) => "tuple",
        Value::UnitStruct(_) => "unit-struct",
        Value::Newtype(..) => "newtype",
        Value::TupleStruct(..) => "tuple-struct",
        Value::Struct(..) => "struct",
        Value::UnitVariant(..) => "unit-variant",
        Value::NewtypeVariant(..) => "newtype-variant",
        Value::TupleVariant(..) => "tuple-variant",
        Value::StructVariant(..) => "struct-variant",
        Value::Map(_) => "map",
    }
}

struct SeqDe<'a> {
    it: std::slice::Iter<'a, Value>,
}
impl<'de> SeqAccess<'de> for SeqDe<'de> {
    type Error = VErr;
    fn next_element_seed<T: DeserializeSeed<'de>>(&mut self, seed: T) -> Result<Option<T::Value>, VErr> {
        match self.it.next() {
            Some(v) => seed.deserialize(De(v)).map(Some),
            None => Ok(None),
        }
    }
    fn size_hint(&self) -> Option<usize> {
        Some(self.it.len())
    }
}
struct FieldsDe<'a> {
    it: std::slice::Iter<'a, (&'static str, Value)>,
    cur: Option<&'a Value>,
}
impl<'de> MapAccess<'de> for FieldsDe<'de> {
    type Error = VErr;
    fn next_key_seed<K: DeserializeSeed<'de>>(&mut self, seed: K) -> Result<Option<K::Value>, VErr> {
        match self.it.next() {
            Some((k, v)) => {
                self.cur = Some(v);
                let d: de::value::StrDeserializer<VErr> = (*k).into_deserializer();
                seed.deserialize(d).map(Some)
            }
            None => Ok(None),
        }
    }
    fn next_value_seed<T: DeserializeSeed<'de>>(&mut self, seed: T) -> Result<T::Value, VErr> {
        let v = self.cur.take().ok_or_else(|| VErr("value without key".into()))?;
        seed.deserialize(De(v))
    }
}
struct MapDe<'a> {
    it: std::slice::Iter<'a, (Value, Value)>,
    cur: Option<&'a Value>,
}
impl<'de> MapAccess<'de> for MapDe<'de> {
    type Error = VErr;
    fn next_key_seed<K: DeserializeSeed<'de>>(&mut self, seed: K) -> Result<Option<K::Value>, VErr> {
        match self.it.next() {
            Some((k, v)) => {
                self.cur = Some(v);
                seed.deserialize(De(k)).map(Some)
            }
            None => Ok(None),
        }
    }
    fn next_value_seed<T: DeserializeSeed<'de>>(&mut self, seed: T) -> Result<T::Value, VErr> {
        let v = self.cur.take().ok_or_else(|| VErr("value without key".into()))?;
        seed.deserialize(De(v))
    }
}
struct EnumDe<'a> {
    variant: &'static str,
    content: Option<&'a Value>,
    tuple: Option<&'a [Value]>,
    fields: Option<&'a [(&'static str, Value)]>,
}
impl<'de> EnumAccess<'de> for EnumDe<'de> {
    type Error = VErr;
    type Variant = Self;
    fn variant_seed<V: DeserializeSeed<'de>>(self, seed: V) -> Result<(V::Value, Self), VErr> {
        let d: de::value::StrDeserializer<VErr> = self.variant.into_deserializer();
        let v = seed.deserialize(d)?;
        Ok((v, self))
    }
}
impl<'de> VariantAccess<'de> for EnumDe<'de> {
    type Error = VErr;
    fn unit_variant(self) -> Result<(), VErr> {
        Ok(())
    }
    fn newtype_variant_seed<T: DeserializeSeed<'de>>(self, seed: T) -> Result<T::Value, VErr> {
        match self.content {
            Some(v) => seed.deserialize(De(v)),
            None => Err(VErr("newtype variant without content".into())),
        }
    }
    fn tuple_variant<V: Visitor<'de>>(self, _len: usize, visitor: V) -> Result<V::Value, VErr> {
        match self.tuple {
            Some(t) => visitor.visit_seq(SeqDe { it: t.iter() }),
            None => Err(VErr("tuple variant without content".into())),
        }
    }
    fn struct_variant<V: Visitor<'de>>(self, _fields: &'static [&'static str], visitor: V) -> Result<V::Value, VErr> {
        match self.fields {
            Some(f) => visitor.visit_map(FieldsDe { it: f.iter(), cur: None }),
            None => Err(VErr("struct variant without content".into())),
        }
    }
}

impl<'de> de::Deserializer<'de> for De<'de> {
    type Error = VErr;

    fn deserialize_any<V: Visitor<'de>>(self, visitor: V) -> Result<V::Value, VErr> {
        match self.0 {
            Value::Bool(b) => visitor.visit_bool(*b),
            Value::U8(x) => visitor.visit_u8(*x),
            Value::U16(x) => visitor.visit_u16(*x),
            Value::U32(x) => visitor.visit_u32(*x),
            Value::U64(x) => visitor.visit_u64(*x),
            Value::I8(x) => visitor.visit_i8(*x),
            Value::I16(x) => visitor.visit_i16(*x),
            Value::I32(x) => visitor.visit_i32(*x),
            Value::I64(x) => visitor.visit_i64(*x),
            Value::F32(x) => visitor.visit_f32(*x),
            Value::F64(x) => visitor.visit_f64(*x),
            Value::Char(c) => visitor.visit_char(*c),
            Value::Str(s) => visitor.visit_borrowed_str(s),
            Value::Bytes(b) => visitor.visit_borrowed_bytes(b),
            Value::Unit | Value::UnitStruct(_) => visitor.visit_unit(),
            Value::None => visitor.visit_none(),
            Value::Some(v) => visitor.visit_some(De(v)),
            Value::Seq(v) | Value::Tuple(v) | Value::TupleStruct(_, v) => visitor.visit_seq(SeqDe { it: v.iter() }),
            Value::Newtype(_, v) => visitor.visit_newtype_struct(De(v)),
            Value::Struct(_, f) => visitor.visit_map(FieldsDe { it: f.iter(), cur: None }),
            Value::Map(m) => visitor.visit_map(MapDe { it: m.iter(), cur: None }),
            Value::UnitVariant(..) | Value::NewtypeVariant(..) | Value::TupleVariant(..) | Value::StructVariant(..) => self.deserialize_enum("", &[], visitor),
        }
    }
    fn deserialize_bool<V: Visitor<'de>>(self, visitor: V) -> Result<V::Value, VErr> {
        match num_of(self.0) {
            Some(Num::I(i)) => visitor.visit_bool(i != 0),
            Some(Num::F(f)) => visitor.visit_bool(f != 0.0),
            None => Err(VErr("expected bool".into())),
        }
    }
    de_int!(deserialize_i8, visit_i8, i8);
    de_int!(deserialize_i16, visit_i16, i16);
    de_int!(deserialize_i32, visit_i32, i32);
    de_int!(deserialize_i64, visit_i64, i64);
    de_int!(deserialize_u8, visit_u8, u8);
    de_int!(deserialize_u16, visit_u16, u16);
    de_int!(deserialize_u32, visit_u32, u32);
    de_int!(deserialize_u64, visit_u64, u64);
    fn deserialize_f32<V: Visitor<'de>>(self, visitor: V) -> Result<V::Value, VErr> {
        match self.0 {
            Value::F32(x) => visitor.visit_f32(*x),
            _ => match num_of(self.0) {
                Some(Num::I(i)) => visitor.visit_f32(i as f32),
                Some(Num::F(f)) => visitor.visit_f32(f as f32),
                None => Err(VErr(format!("expected f32, found {}", kind_name(self.0)))),
            },
        }
    }
    fn deserialize_f64<V: Visitor<'de>>(self, visitor: V) -> Result<V::Value, VErr> {
        match num_of(self.0) {
            Some(Num::I(i)) => visitor.visit_f64(i as f64),
            Some(Num::F(f)) => visitor.visit_f64(f),
            None => Err(VErr(format!("expected f64, found {}", kind_name(self.0)))),
        }
    }
    fn deserialize_char<V: Visitor<'de>>(self, visitor: V) -> Result<V::Value, VErr> {
        match self.0 {
            Value::Char(c) => visitor.visit_char(*c),
            Value::Str(s) if s.chars().count() == 1 => visitor.visit_char(s.chars().next().unwrap()),
            v => match num_of(v) {
                Some(Num::I(i)) => visitor.visit_char(char::from_u32(i.clamp(0, 0x10FFFF) as u32).unwrap_or('\u{FFFD}')),
                _ => Err(VErr(format!("expected char, found {}", kind_name(v)))),
            },
        }
    }
    fn deserialize_str<V: Visitor<'de>>(self, visitor: V) -> Result<V::Value, VErr> {
        match self.0 {
            Value::Str(s) => visitor.visit_borrowed_str(s),
            Value::Char(c) => visitor.visit_string(c.to_string()),
            v => Err(VErr(format!("expected str, found {}", kind_name(v)))),
        }
    }
    fn deserialize_string<V: Visitor<'de>>(self, visitor: V) -> Result<V::Value, VErr> {
        self.deserialize_str(visitor)
    }
    fn deserialize_bytes<V: Visitor<'de>>(self, visitor: V) -> Result<V::Value, VErr> {
        match self.0 {
            Value::Bytes(b) => visitor.visit_borrowed_bytes(b),
            Value::Str(s) => visitor.visit_borrowed_bytes(s.as_bytes()),
            Value::Seq(_) => self.deserialize_seq(visitor),
            v => Err(VErr(format!("expected bytes, found {}", kind_name(v)))),
        }
    }
    fn deserialize_byte_buf<V: Visitor<'de>>(self, visitor: V) -> Result<V::Value, VErr> {
        self.deserialize_bytes(visitor)
    }
    fn deserialize_option<V: Visitor<'de>>(self, visitor: V) -> Result<V::Value, VErr> {
        match self.0 {
            Value::None | Value::Unit => visitor.visit_none(),
            Value::Some(v) => visitor.visit_some(De(v)),
            _ => visitor.visit_some(self),
        }
    }
    fn deserialize_unit<V: Visitor<'de>>(self, visitor: V) -> Result<V::Value, VErr> {
        visitor.visit_unit()
    }
    fn deserialize_unit_struct<V: Visitor<'de>>(self, _name: &'static str, visitor: V) -> Result<V::Value, VErr> {
        visitor.visit_unit()
    }
    fn deserialize_newtype_struct<V: Visitor<'de>>(self, _name: &'static str, visitor: V) -> Result<V::Value, VErr> {
        match self.0 {
            Value::Newtype(_, v) => visitor.visit_newtype_struct(De(v)),
            _ => visitor.visit_newtype_struct(self),
        }
    }
    fn deserialize_seq<V: Visitor<'de>>(self, visitor: V) -> Result<V::Value, VErr> {
        match self.0 {
            Value::Seq(v) | Value::Tuple(v) | Value::TupleStruct(_, v) => visitor.visit_seq(SeqDe { it: v.iter() }),
            Value::Newtype(_, v) => De(v).deserialize_seq(visitor),
            v => Err(VErr(format!("expected a sequence, found {}", kind_name(v)))),
        }
    }
    fn deserialize_tuple<V: Visitor<'de>>(self, _len: usize, visitor: V) -> Result<V::Value, VErr> {
        self.deserialize_seq(visitor)
    }
    fn deserialize_tuple_struct<V: Visitor<'de>>(self, _name: &'static str, _len: usize, visitor: V) -> Result<V::Value, VErr> {
        self.deserialize_seq(visitor)
    }
    fn deserialize_map<V: Visitor<'de>>(self, visitor: V) -> Result<V::Value, VErr> {
        match self.0 {
            Value::Map(m) => visitor.visit_map(MapDe { it: m.iter(), cur: None }),
            Value::Struct(_, f) => visitor.visit_map(FieldsDe { it: f.iter(), cur: None }),
            v => Err(VErr(format!("expected a map, found {}", kind_name(v)))),
        }
    }
    fn deserialize_struct<V: Visitor<'de>>(self, _name: &'static str, _fields: &'static [&'static str], visitor: V) -> Result<V::Value, VErr> {
        match self.0 {
            Value::Struct(_, f) => visitor.visit_map(FieldsDe { it: f.iter(), cur: None }),
            Value::Map(m) => visitor.visit_map(MapDe { it: m.iter(), cur: None }),
            Value::Seq(v) | Value::Tuple(v) => visitor.visit_seq(SeqDe { it: v.iter() }),
            v => Err(VErr(format!("expected a struct, found {}", kind_name(v)))),
        }
    }
    fn deserialize_enum<V: Visitor<'de>>(self, _name: &'static str, _variants: &'static [&'static str], visitor: V) -> Result<V::Value, VErr> {
        match self.0 {
            Value::UnitVariant(_, var) => visitor.visit_enum(EnumDe { variant: var, content: None, tuple: None, fields: None }),
            Value::NewtypeVariant(_, var, v) => visitor.visit_enum(EnumDe { variant: var, content: Some(v), tuple: None, fields: None }),
            Value::TupleVariant(_, var, t) => visitor.visit_enum(EnumDe { variant: var, content: None, tuple: Some(t), fields: None }),
            Value::StructVariant(_, var, f) => visitor.visit_enum(EnumDe { variant: var, content: None, tuple: None, fields: Some(f) }),
            v => Err(VErr(format!("expected an enum, found {}", kind_name(v)))),
        }
    }
    fn deserialize_identifier<V: Visitor<'de>>(self, visitor: V) -> Result<V::Value, VErr> {
        match self.0 {
            Value::Str(s) => visitor.visit_borrowed_str(s),
            v => match num_of(v) {
                Some(Num::I(i)) => visitor.visit_u64(i as u64),
                _ => Err(VErr("expected identifier".into())),
            },
        }
    }
    fn deserialize_ignored_any<V: Visitor<'de>>(self, visitor: V) -> Result<V::Value, VErr> {
        visitor.visit_unit()
    }
    fn is_human_readable(&self) -> bool {
        false
    }
}

// ------------------------------------------------------------------------------------------------
// tree navigation helpers
// ------------------------------------------------------------------------------------------------
#[derive(Clone, Debug, PartialEq, Eq, Hash)]
pub enum Step {
    Field(&'static str),
    Index(usize),
    Inner,
}
pub type Path = Vec<Step>;

impl Value {
    /// children in a fixed order
    pub fn children(&self) -> Vec<(Step, &Value)> {
        match self {
            Value::Some(v) | Value::Newtype(_, v) | Value::NewtypeVariant(_, _, v) => vec![(Step::Inner, &**v)],
            Value::Seq(v) | Value::Tuple(v) | Value::TupleStruct(_, v) | Value::TupleVariant(_, _, v) => v.iter().enumerate().map(|(i, x)| (Step::Index(i), x)).collect(),
            Value::Struct(_, f) | Value::StructVariant(_, _, f) => f.iter().map(|(k, x)| (Step::Field(k), x)).collect(),
            _ => Vec::new(),
        }
    }
    pub fn get(&self, path: &[Step]) -> Option<&Value> {
        let mut cur = self;
        for s in path {
            cur = match (s, cur) {
                (Step::Inner, Value::Some(v)) | (Step::Inner, Value::Newtype(_, v)) | (Step::Inner, Value::NewtypeVariant(_, _, v)) => v,
                (Step::Index(i), Value::Seq(v)) | (Step::Index(i), Value::Tuple(v)) | (Step::Index(i), Value::TupleStruct(_, v)) | (Step::Index(i), Value::TupleVariant(_, _, v)) => v.get(*i)?,
                (Step::Field(k), Value::Struct(_, f)) | (Step::Field(k), Value::StructVariant(_, _, f)) => &f.iter().find(|(n, _)| n == k)?.1,
                _ => return None,
            };
        }
        Some(cur)
    }
    pub fn get_mut(&mut self, path: &[Step]) -> Option<&mut Value> {
        let mut cur = self;
        for s in path {
            cur = match (s, cur) {
                (Step::Inner, Value::Some(v)) | (Step::Inner, Value::Newtype(_, v)) | (Step::Inner, Value::NewtypeVariant(_, _, v)) => v,
                (Step::Index(i), Value::Seq(v)) | (Step::Index(i), Value::Tuple(v)) | (Step::Index(i), Value::TupleStruct(_, v)) | (Step::Index(i), Value::TupleVariant(_, _, v)) => v.get_mut(*i)?,
                (Step::Field(k), Value::Struct(_, f)) | (Step::Field(k), Value::StructVariant(_, _, f)) => &mut f.iter_mut().find(|(n, _)| n == k)?.1,
                _ => return None,
            };
        }
        Some(cur)
    }
    /// all paths (depth first) with the node
    pub fn walk<'a>(&'a self, path: &mut Path, out: &mut Vec<(Path, &'a Value)>) {
        out.push((path.clone(), self));
        for (s, c) in self.children() {
            path.push(s);
            c.walk(path, out);
            path.pop();
        }
    }
    pub fn is_leaf_number(&self) -> bool {
        matches!(
            self,
            Value::Bool(_) | Value::U8(_) | Value::U16(_) | Value::U32(_) | Value::U64(_) | Value::I8(_) | Value::I16(_) | Value::I32(_) | Value::I64(_) | Value::F32(_) | Value::F64(_)
        )
    }
    pub fn is_float(&self) -> bool {
        matches!(self, Value::F32(_) | Value::F64(_))
    }
    pub fn as_f64(&self) -> Option<f64> {
        match num_of(self) {
            Some(Num::I(i)) => Some(i as f64),
            Some(Num::F(f)) => Some(f),
            None => None,
        }
    }
    /// every float leaf finite?
    pub fn all_floats_finite(&self) -> bool {
        match self {
            Value::F32(x) => x.is_finite(),
            Value::F64(x) => x.is_finite(),
            _ => self.children().iter().all(|(_, c)| c.all_floats_finite()),
        }
    }
    pub fn has_nan(&self) -> bool {
        match self {
            Value::F32(x) => x.is_nan(),
            Value::F64(x) => x.is_nan(),
            _ => self.children().iter().any(|(_, c)| c.has_nan()),
        }
    }
    /// compact rendering for evidence samples / replay files
    pub fn brief(&self, max: usize) -> String {
        let s = format!("{:?}", self);
        if s.len() > max {
            format!("{}…", s.chars().take(max).collect::<String>())
        } else {
            s
        }
    }
}

/// path without list indexes: identifies a "slot type" across messages of one type
pub fn schema_key(path: &[Step]) -> String {
    let mut s = String::new();
    for st in path {
        match st {
            Step::Field(f) => {
                s.push('.');
                s.push_str(f);
            }
            Step::Index(_) => s.push_str("[]"),
            Step::Inner => s.push('^'),
        }
    }
    s
}

// ------------------------------------------------------------------------------------------------
// exact JSON form of a Value (for replay files): floats as bit patterns
// ------------------------------------------------------------------------------------------------
use serde_json::{json, Value as J};

fn leak(s: &str) -> &'static str {
    use std::collections::HashSet;
    use std::sync::Mutex;
    static POOL: Mutex<Option<HashSet<&'static str>>> = Mutex::new(None);
    let mut g = POOL.lock().unwrap();
    let set = g.get_or_insert_with(HashSet::new);
    if let Some(x) = set.get(s) {
        return x;
    }
    let l: &'static str = Box::leak(s.to_string().into_boxed_str());
    set.insert(l);
    l
}

impl Value {
    pub fn to_json(&self) -> J {
        let fields = |f: &Vec<(&'static str, Value)>| J::Array(f.iter().map(|(k, v)| json!([k, v.to_json()])).collect());
        let seq = |v: &Vec<Value>| J::Array(v.iter().map(|x| x.to_json()).collect());
        match self {
            Value::Bool(b) => json!({"t":"bool","v":b}),
            Value::U8(x) => json!({"t":"u8","v":x}),
            Value::U16(x) => json!({"t":"u16","v":x}),
            Value::U32(x) => json!({"t":"u32","v":x}),
            Value::U64(x) => json!({"t":"u64","v":x}),
            Value::I8(x) => json!({"t":"i8","v":x}),
            Value::I16(x) => json!({"t":"i16","v":x}),
            Value::I32(x) => json!({"t":"i32","v":x}),
            Value::I64(x) => json!({"t":"i64","v":x}),
            Value::F32(x) => json!({"t":"f32","bits":x.to_bits(),"approx":format!("{:e}", x)}),
            Value::F64(x) => json!({"t":"f64","bits":x.to_bits(),"approx":format!("{:e}", x)}),
            Value::Char(c) => json!({"t":"char","v":*c as u32}),
            Value::Str(s) => json!({"t":"str","v":s.chars().map(|c| c as u32).collect::<Vec<u32>>(),"approx":s}),
            Value::Bytes(b) => json!({"t":"bytes","v":b}),
            Value::Unit => json!({"t":"unit"}),
            Value::None => json!({"t":"none"}),
            Value::Some(v) => json!({"t":"some","v":v.to_json()}),
            Value::Seq(v) => json!({"t":"seq","v":seq(v)}),
            Value::Tuple(v) => json!({"t":"tuple","v":seq(v)}),
            Value::UnitStruct(n) => json!({"t":"unitstruct","n":n}),
            Value::Newtype(n, v) => json!({"t":"newtype","n":n,"v":v.to_json()}),
            Value::TupleStruct(n, v) => json!({"t":"tuplestruct","n":n,"v":seq(v)}),
            Value::Struct(n, f) => json!({"t":"struct","n":n,"v":fields(f)}),
            Value::UnitVariant(n, var) => json!({"t":"unitvariant","n":n,"var":var}),
            Value::NewtypeVariant(n, var, v) => json!({"t":"newtypevariant","n":n,"var":var,"v":v.to_json()}),
            Value::TupleVariant(n, var, v) => json!({"t":"tuplevariant","n":n,"var":var,"v":seq(v)}),
            Value::StructVariant(n, var, f) => json!({"t":"structvariant","n":n,"var":var,"v":fields(f)}),
            Value::Map(m) => json!({"t":"map","v":J::Array(m.iter().map(|(k,v)| json!([k.to_json(), v.to_json()])).collect())}),
        }
    }
    pub fn from_json(j: &J) -> Option<Value> {
        let t = j.get("t")?.as_str()?;
        let n = || j.get("n").and_then(|x| x.as_str()).map(leak).unwrap_or("");
        let var = || j.get("var").and_then(|x| x.as_str()).map(leak).unwrap_or("");
        let seq = || -> Option<Vec<Value>> { j.get("v")?.as_array()?.iter().map(Value::from_json).collect() };
        let fields = || -> Option<Vec<(&'static str, Value)>> {
            j.get("v")?.as_array()?.iter().map(|p| Some((leak(p.get(0)?.as_str()?), Value::from_json(p.get(1)?)?))).collect()
        };
        let v = j.get("v");
        Some(match t {
            "bool" => Value::Bool(v?.as_bool()?),
            "u8" => Value::U8(v?.as_u64()? as u8),
            "u16" => Value::U16(v?.as_u64()? as u16),
            "u32" => Value::U32(v?.as_u64()? as u32),
            "u64" => Value::U64(v?.as_u64()?),
            "i8" => Value::I8(v?.as_i64()? as i8),
            "i16" => Value::I16(v?.as_i64()? as i16),
            "i32" => Value::I32(v?.as_i64()? as i32),
            "i64" => Value::I64(v?.as_i64()?),
            "f32" => Value::F32(f32::from_bits(j.get("bits")?.as_u64()? as u32)),
            "f64" => Value::F64(f64::from_bits(j.get("bits")?.as_u64()?)),
            "char" => Value::Char(char::from_u32(v?.as_u64()? as u32)?),
            "str" => Value::Str(v?.as_array()?.iter().map(|c| char::from_u32(c.as_u64().unwrap_or(0xFFFD) as u32).unwrap_or('\u{FFFD}')).collect()),
            "bytes" => Value::Bytes(v?.as_array()?.iter().map(|c| c.as_u64().unwrap_or(0) as u8).collect()),
            "unit" => Value::Unit,
            "none" => Value::None,
            "some" => Value::Some(Box::new(Value::from_json(v?)?)),
            "seq" => Value::Seq(seq()?),
            "tuple" => Value::Tuple(seq()?),
            "unitstruct" => Value::UnitStruct(n()),
            "newtype" => Value::Newtype(n(), Box::new(Value::from_json(v?)?)),
            "tuplestruct" => Value::TupleStruct(n(), seq()?),
            "struct" => Value::Struct(n(), fields()?),
            "unitvariant" => Value::UnitVariant(n(), var()),
            "newtypevariant" => Value::NewtypeVariant(n(), var(), Box::new(Value::from_json(v?)?)),
            "tuplevariant" => Value::TupleVariant(n(), var(), seq()?),
            "structvariant" => Value::StructVariant(n(), var(), fields()?),
            "map" => Value::Map(v?.as_array()?.iter().map(|p| Some((Value::from_json(p.get(0)?)?, Value::from_json(p.get(1)?)?))).collect::<Option<Vec<_>>>()?),
            _ => return None,
        })
    }
}
