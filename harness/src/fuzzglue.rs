//! Decoding of libFuzzer inputs into structured cases and the semantic oracles run on them. Shared by the
//! cargo-fuzz targets (/verif/fuzz) and by `vcheck fuzz-replay`, so that a crash artefact is re-judged by exactly
//! the same oracle without libFuzzer before it is reported.
use crate::bits::hex;
use crate::checks::{c01, c02, c05, c09, c10, c12, c16, c17, c20};
use crate::frame::frame;
use crate::msggen::{self, MutOp, Recipe};
use crate::registry::MSG_TABLE;
use rtcm_rs::prelude::*;
use serde_json::{json, Value as J};

/// (property, signature, message, replay case)
pub type Finding = (String, String, String, J);

fn prop_of(sig: &str) -> String {
    if sig.starts_with("panic:") {
        return String::new();
    }
    sig.split(':').next().unwrap_or("").to_uppercase()
}

/// decode_total: bytes 0..1 select the message number (index into the supported list, or a raw 12-bit number when
/// the top bit of byte 0 is set); the rest is the payload after the 12-bit number. Framing (length, CRC) is done here.
pub fn decode_total_frame(data: &[u8]) -> Option<Vec<u8>> {
    if data.len() < 2 {
        return None;
    }
    let sel = ((data[0] as usize) << 8) | data[1] as usize;
    let number: u16 = if data[0] & 0x80 != 0 { (sel & 0xFFF) as u16 } else { MSG_TABLE[sel % MSG_TABLE.len()].number };
    let body = &data[2..];
    let body = &body[..body.len().min(1021)];
    // payload = 12-bit number, then the body shifted by 4 bits (so every body bit is reachable)
    let mut w = crate::bits::BitW::new();
    w.put(number as u64, 12);
    w.put_bytes(body);
    let mut p = w.into_bytes();
    p.truncate(1023);
    Some(frame(&p))
}
pub fn run_decode_total(data: &[u8]) -> Vec<Finding> {
    let mut out = Vec::new();
    let f = match decode_total_frame(data) {
        Some(f) => f,
        None => return out,
    };
    if let Err((sig, msg)) = c02::oracle_frame(&f) {
        out.push(("C02".to_string(), sig, msg, json!({"kind":"frame","bytes":hex(&f)})));
        return out;
    }
    if let Err((sig, msg)) = c01::oracle_b(&f) {
        let p = if sig.starts_with("panic:") { "C01".to_string() } else { prop_of(&sig) };
        out.push((p, sig, msg, json!({"kind":"frame","bytes":hex(&f)})));
    }
    if let Some(m) = msggen::decode_frame(&f) {
        if msggen::is_typed(&m) {
            if let Err((sig, msg)) = c20::oracle(&m) {
                out.push(("C20".to_string(), sig, msg, json!({"kind":"frame","bytes":hex(&f)})));
            }
        }
    }
    out
}

/// scan_model: byte 0 = mode; mode bit 0: fix up the CRC of the k-th 0xD3 candidate (k = byte 1) so that valid,
/// damaged and nested frames all occur; bytes 2..2+n (n = mode>>4) are chunk cut positions (scaled); rest = stream.
pub fn scan_model_case(data: &[u8]) -> Option<(Vec<u8>, Vec<usize>)> {
    if data.len() < 3 {
        return None;
    }
    let mode = data[0];
    let k = data[1] as usize;
    let ncuts = (mode >> 4) as usize;
    if data.len() < 2 + ncuts {
        return None;
    }
    let cut_bytes = &data[2..2 + ncuts];
    let mut buf = data[2 + ncuts..].to_vec();
    buf.truncate(2200);
    if mode & 1 == 1 {
        let cands: Vec<usize> = buf.iter().enumerate().filter(|(_, b)| **b == 0xD3).map(|(i, _)| i).collect();
        if !cands.is_empty() {
            let reps = 1 + ((mode >> 1) & 3) as usize;
            for r in 0..reps {
                let i = cands[(k + r * 7) % cands.len()];
                if i + 3 <= buf.len() {
                    let l = (((buf[i + 1] & 3) as usize) << 8) | buf[i + 2] as usize;
                    if i + l + 6 <= buf.len() {
                        let c = crate::crc::crc24q(&buf[i..i + l + 3]);
                        buf[i + l + 3] = (c >> 16) as u8;
                        buf[i + l + 4] = (c >> 8) as u8;
                        buf[i + l + 5] = c as u8;
                    }
                }
            }
        }
    }
    let n = buf.len();
    let cuts: Vec<usize> = cut_bytes.iter().map(|c| (*c as usize * (n + 1)) >> 8).collect();
    Some((buf, cuts))
}
pub fn run_scan_model(data: &[u8]) -> Vec<Finding> {
    let mut out = Vec::new();
    let (buf, cuts) = match scan_model_case(data) {
        Some(x) => x,
        None => return out,
    };
    if let Err((sig, msg)) = crate::infra::catch(|| c05::oracle_scan(&buf)).unwrap_or_else(|p| Err((crate::infra::panic_signature(&p), p))) {
        out.push(("C05".to_string(), sig, msg, json!({"kind":"stream","bytes":hex(&buf)})));
        return out;
    }
    if let Err((sig, msg)) = crate::infra::catch(|| c05::oracle_chunks(&buf, &cuts)).unwrap_or_else(|p| Err((crate::infra::panic_signature(&p), p))) {
        out.push(("C06".to_string(), sig, msg, json!({"kind":"chunked-stream","bytes":hex(&buf),"cuts":cuts})));
    }
    // C03 on the buffer as a slice and on every 0xD3 suffix (bounded)
    let mut checked = 0;
    for i in 0..buf.len() {
        if i == 0 || buf[i] == 0xD3 {
            if let Err((sig, msg)) = crate::checks::c03::oracle(&buf[i..]) {
                out.push(("C03".to_string(), sig, msg, json!({"kind":"slice","how":"fuzz","bytes":hex(&buf[i..])})));
                break;
            }
            checked += 1;
            if checked > 24 {
                break;
            }
        }
    }
    // whatever frames are found must decode totally
    if let Err((sig, msg)) = c02::oracle_stream(&buf) {
        out.push(("C02".to_string(), sig, msg, json!({"kind":"stream","bytes":hex(&buf)})));
    }
    out
}

/// encode_total: bytes -> recipe (type, base, ops) over the process-wide corpus
pub fn encode_total_recipe(data: &[u8]) -> Option<Recipe> {
    if data.len() < 4 {
        return None;
    }
    let type_index = u16::from_le_bytes([data[0], data[1]]);
    let base_index = u16::from_le_bytes([data[2], data[3]]);
    let mut ops: Vec<MutOp> = Vec::new();
    let mut i = 4;
    while i + 13 <= data.len() && ops.len() < 12 {
        let sel = u32::from_le_bytes([data[i], data[i + 1], data[i + 2], data[i + 3]]);
        let code = data[i + 4];
        let mut a = [0u8; 8];
        a.copy_from_slice(&data[i + 5..i + 13]);
        ops.push((sel, code, u64::from_le_bytes(a)));
        i += 13;
    }
    Some(Recipe { type_index, base_index, ops })
}
pub fn run_encode_total(data: &[u8]) -> Vec<Finding> {
    let mut out = Vec::new();
    let r = match encode_total_recipe(data) {
        Some(r) => r,
        None => return out,
    };
    let corp = msggen::corpus(FUZZ_CORPUS_SEED);
    let b = msggen::run_recipe(corp, &r, true);
    let m = match &b.message {
        Some(m) => m,
        None => return out,
    };
    let case = || json!({"kind":"message-value","number":b.number,"value":b.tree.to_json()});
    match c09::oracle(m) {
        Err((sig, msg)) => {
            out.push(("C09".to_string(), sig, msg, case()));
            return out;
        }
        Ok(_) => {}
    }
    if let Err((sig, msg)) = c01::oracle_a(m, &b.tree) {
        out.push(("C01".to_string(), sig, msg, case()));
    }
    if !b.tree.has_nan() {
        if let Err((sig, msg)) = c20::oracle(m) {
            out.push(("C20".to_string(), sig, msg, case()));
        }
    }
    out
}

fn guarded<T>(f: impl FnOnce() -> Result<T, (String, String)>) -> Result<T, (String, String)> {
    crate::infra::catch(f).unwrap_or_else(|p| Err((crate::infra::panic_signature(&p), format!("panic: {}", p))))
}

/// builder_history (C12): byte 0 = number of earlier steps (0..=10); every step is 32 bytes
/// [kind, a_lo, a_hi, b_lo, b_hi, two 13-byte mutations, pad]: kind&7 = 1|5 the mutated corpus message (type a, base b,
/// two type-directed mutations, e.g. a list length and an extreme leaf: "refused at element k"), 2 = a
/// build_generated_message call (type a, seed b), 4 = a residue probe (1059 message with payload length chosen by a whose
/// last byte has one data bit and seven padding bits), 6 = the message of an earlier step again, otherwise pool entry a (the C12 pool: every type, full lists,
/// refused-first and refused-late messages). The last step is the target.
pub fn run_builder_history(data: &[u8]) -> Vec<Finding> {
    const STEP: usize = 32;
    let mut out = Vec::new();
    if data.len() < 1 + STEP {
        return out;
    }
    let want = 1 + (data[0] as usize % 11);
    let pool = c12::pool(FUZZ_CORPUS_SEED);
    let corp = msggen::corpus(FUZZ_CORPUS_SEED);
    static PROBES: std::sync::OnceLock<Vec<(usize, Message, Vec<u8>)>> = std::sync::OnceLock::new();
    let probes = PROBES.get_or_init(c12::residue_probes);
    enum Owned<'a> {
        P(usize),
        M(Message, crate::value::Value),
        G(u16, u64),
        R(&'a Message),
    }
    let mut owned: Vec<Owned> = Vec::new();
    for ch in data[1..].chunks_exact(STEP).take(want) {
        let a = u16::from_le_bytes([ch[1], ch[2]]);
        let b = u16::from_le_bytes([ch[3], ch[4]]);
        match ch[0] & 7 {
            1 | 5 => {
                let op = |o: &[u8]| -> MutOp {
                    let mut arg = [0u8; 8];
                    arg.copy_from_slice(&o[5..13]);
                    (u32::from_le_bytes([o[0], o[1], o[2], o[3]]), o[4], u64::from_le_bytes(arg))
                };
                let r = Recipe { type_index: a, base_index: b, ops: vec![op(&ch[5..18]), op(&ch[18..31])] };
                let built = msggen::run_recipe(corp, &r, true);
                if let Some(m) = built.message {
                    owned.push(Owned::M(m, built.tree));
                }
            }
            2 => {
                let row = &MSG_TABLE[(a as usize * MSG_TABLE.len()) >> 16];
                owned.push(Owned::G(row.number, b as u64));
            }
            4 if !probes.is_empty() => owned.push(Owned::R(&probes[(a as usize * probes.len()) >> 16].1)),
            // the same message as an earlier step of this history (back reference)
            6 if !owned.is_empty() => {
                let j = a as usize % owned.len();
                let again = match &owned[j] {
                    Owned::P(i) => Owned::P(*i),
                    Owned::M(m, t) => Owned::M(m.clone(), t.clone()),
                    Owned::G(n, sd) => Owned::G(*n, *sd),
                    Owned::R(m) => Owned::R(*m),
                };
                owned.push(again);
            }
            _ => owned.push(Owned::P((a as usize * pool.len()) >> 16)),
        }
    }
    if owned.is_empty() {
        return out;
    }
    let steps: Vec<c12::StepRef> = owned
        .iter()
        .map(|o| match o {
            Owned::P(i) => c12::StepRef::Build(&pool[*i].msg),
            Owned::M(m, _) => c12::StepRef::Build(m),
            Owned::R(m) => c12::StepRef::Build(m),
            Owned::G(n, s) => c12::StepRef::Generated(*n, *s),
        })
        .collect();
    if let Err((sig, msg)) = c12::oracle_steps(&steps) {
        let hist: Vec<J> = owned
            .iter()
            .map(|o| match o {
                Owned::P(i) => pool[*i].tree.to_json(),
                Owned::M(_, t) => t.to_json(),
                Owned::R(m) => msggen::message_to_value(m).to_json(),
                Owned::G(n, s) => json!({"t":"generated","number":n,"seed":s}),
            })
            .collect();
        out.push(("C12".to_string(), sig, msg, json!({"kind":"history","history":hist})));
    }
    out
}

/// msm_masks (C10): [cons, level, satellite mask (8), signal selector (4), cell bits (8), header (8), permutation
/// seed (8), data bytes...] -> an admissible (S, G, C) triple by construction: the signal selector picks table
/// entries, satellites are cut so that |S|*|G| <= 64, empty rows and columns get one cell.
pub fn msm_spec_of(data: &[u8]) -> Option<(crate::msm::MsmSpec, u64)> {
    use crate::msm::{MsmSpec, ALL_CONS, HEADER_REST_BITS};
    if data.len() < 38 {
        return None;
    }
    let cons = ALL_CONS[data[0] as usize % 7];
    let level = 1 + data[1] % 7;
    let u64at = |i: usize| u64::from_le_bytes([data[i], data[i + 1], data[i + 2], data[i + 3], data[i + 4], data[i + 5], data[i + 6], data[i + 7]]);
    let satm = u64at(2);
    let sigsel = u32::from_le_bytes([data[10], data[11], data[12], data[13]]);
    let cellbits = u64at(14);
    let header = u64at(22) & ((1u64 << HEADER_REST_BITS) - 1);
    let perm = u64at(30);
    let table = cons.table();
    let mut sigs: Vec<u8> = table.iter().enumerate().filter(|(i, _)| sigsel >> (i % 32) & 1 == 1).map(|(_, t)| t.0).collect();
    if sigs.is_empty() {
        sigs.push(table[sigsel as usize % table.len()].0);
    }
    sigs.sort();
    let ng = sigs.len();
    let mut sats: Vec<u8> = (1..=64u8).filter(|s| satm >> (64 - *s as u32) & 1 == 1).collect();
    if sats.is_empty() {
        sats.push(1 + (satm % 64) as u8);
    }
    sats.truncate((64 / ng).max(1));
    let ns = sats.len();
    let mut cells: Vec<bool> = (0..ns * ng).map(|k| cellbits >> (k % 64) & 1 == 1).collect();
    for i in 0..ns {
        if !(0..ng).any(|j| cells[i * ng + j]) {
            cells[i * ng + (i + (satm % 64) as usize) % ng] = true;
        }
    }
    for j in 0..ng {
        if !(0..ns).any(|i| cells[i * ng + j]) {
            cells[((j + (sigsel % 64) as usize) % ns) * ng + j] = true;
        }
    }
    let mut spec = MsmSpec { cons, level, header, sats, sigs, cells, sat_data: vec![], sig_data: vec![] };
    // data patterns straight from the input bytes (zero when the input runs out)
    let mut rd = data[38..].iter().copied();
    let mut pat = |w: usize| -> u64 {
        let mut v = 0u64;
        for _ in 0..((w + 7) / 8) {
            v = (v << 8) | rd.next().unwrap_or(0) as u64;
        }
        v & ((1u64 << w) - 1)
    };
    let n = spec.ncells();
    spec.sat_data = crate::msm::sat_cols(level).iter().map(|w| (0..ns).map(|_| pat(*w)).collect()).collect();
    spec.sig_data = crate::msm::sig_cols(level).iter().map(|w| (0..n).map(|_| pat(*w)).collect()).collect();
    Some((spec, perm))
}
pub fn run_msm_masks(data: &[u8]) -> Vec<Finding> {
    let mut out = Vec::new();
    if let Some((spec, perm)) = msm_spec_of(data) {
        if let Err((sig, msg)) = guarded(|| c10::oracle_spec(&spec, perm)) {
            out.push(("C10".to_string(), sig, msg, c10::spec_json(&spec, perm)));
        }
    }
    out
}

/// bias_lists (C16): [message selector, first-use selector, entries of 5 bytes: satellite, signal, grid index (2), flags]
pub fn run_bias_lists(data: &[u8]) -> Vec<Finding> {
    use crate::biasmsg::BiasMsg;
    let mut out = Vec::new();
    if data.len() < 2 {
        return out;
    }
    let m = [BiasMsg::M1059, BiasMsg::M1065, BiasMsg::M1230][data[0] as usize % 3];
    let g = c16::grid(m);
    let sigs = m.signals();
    let sat_range: u8 = match m {
        BiasMsg::M1059 => 64,
        BiasMsg::M1065 => 32,
        BiasMsg::M1230 => 1,
    };
    let cap = if m == BiasMsg::M1230 { 4 } else { 390 };
    let mut es: Vec<c16::Entry> = Vec::new();
    let mut on_grid: Vec<bool> = Vec::new();
    let mut seen = std::collections::HashSet::new();
    for ch in data[2..].chunks_exact(5).take(cap) {
        let sat = ch[0] % sat_range;
        let (_, band, attr) = sigs[ch[1] as usize % sigs.len()];
        // distinct (satellite, signal) keys by construction: the statement's precondition
        if !seen.insert((sat, band, attr)) {
            continue;
        }
        let k = (u16::from_le_bytes([ch[2], ch[3]]) as usize) % g.len();
        let (bias, og) = if ch[4] & 1 == 1 && k + 1 < g.len() && k != g.len() / 2 - 1 {
            let a = g[k] as f64;
            let b = g[k + 1] as f64;
            ((a + (b - a) * ((ch[4] >> 1) as f64 / 128.0)) as f32, (ch[4] >> 1) == 0)
        } else {
            (g[k], true)
        };
        es.push(c16::Entry { sat, band, attr, bias });
        on_grid.push(og);
    }
    // odd selector: the builder's first use was one of the C12 disturbers (refused first / refused late / longest frames)
    let pool = c12::pool(FUZZ_CORPUS_SEED);
    let dist = c12::disturbers(FUZZ_CORPUS_SEED);
    let before = if data[1] & 1 == 1 { Some(&pool[dist[(data[1] as usize >> 1) % dist.len()]].msg) } else { None };
    if let Err((sig, msg)) = guarded(|| c16::oracle_encode_with(m, &es, &on_grid, before)) {
        out.push(("C16".to_string(), sig, msg, c16::case_json(m, &es, &on_grid)));
    }
    out
}

/// text_fields (C17): byte 0 = mode. Mode bit 7 clear: the rest is a string in a compact code (byte < 0xF0 = that
/// Latin-1 code point incl. NUL, 0xF0..=0xFF = the next three bytes as a code point) run through every text oracle;
/// set: a 1029 frame with [character count, declared byte count, raw text bytes] (invalid UTF-8 must give Corrupt).
pub fn text_of(data: &[u8]) -> String {
    let mut s = String::new();
    let mut i = 0;
    while i < data.len() && s.len() < 1200 {
        let b = data[i];
        i += 1;
        if b < 0xF0 {
            s.push(b as char);
        } else if i + 3 <= data.len() {
            let cp = ((data[i] as u32) << 16 | (data[i + 1] as u32) << 8 | data[i + 2] as u32) % 0x11_0000;
            i += 3;
            s.push(char::from_u32(cp).unwrap_or('\u{FFFD}'));
        }
    }
    s
}
pub fn run_text_fields(data: &[u8]) -> Vec<Finding> {
    let mut out = Vec::new();
    if data.is_empty() {
        return out;
    }
    if data[0] & 0x80 == 0 {
        let _ = msggen::corpus(FUZZ_CORPUS_SEED);
        let s = text_of(&data[1..]);
        if let Err((sig, msg)) = guarded(|| c17::one_string(&s).map(|_| ())) {
            out.push(("C17".to_string(), sig, msg, json!({"kind":"string","chars":s.chars().map(|c| c as u32).collect::<Vec<_>>()})));
        }
    } else if data.len() >= 3 {
        let text = &data[3..data.len().min(3 + 300)];
        if let Err((sig, msg)) = guarded(|| c17::oracle_1029_frame(data[1] & 0x7F, data[2], text).map(|_| ())) {
            out.push(("C17".to_string(), sig, msg, json!({"kind":"text-frame","chars":data[1] & 0x7F,"declared":data[2],"text":hex(text)})));
        }
    }
    out
}

/// the fuzz targets use a fixed corpus seed so that a saved input means the same recipe in every process
pub const FUZZ_CORPUS_SEED: u64 = 20261002;

pub fn run_target(target: &str, data: &[u8]) -> Vec<Finding> {
    match target {
        "decode_total" => run_decode_total(data),
        "scan_model" => run_scan_model(data),
        "encode_total" => run_encode_total(data),
        "builder_history" => run_builder_history(data),
        "msm_masks" => run_msm_masks(data),
        "bias_lists" => run_bias_lists(data),
        "text_fields" => run_text_fields(data),
        _ => Vec::new(),
    }
}

/// in-target use: findings whose signature is listed as an open known finding are tolerated so that a campaign
/// does not rediscover one crash forever (strict judging happens in `vcheck fuzz-replay`)
pub fn run_target_tolerant(target: &str, data: &[u8]) -> Vec<Finding> {
    use std::sync::OnceLock;
    static KNOWN: OnceLock<Vec<crate::infra::KnownFinding>> = OnceLock::new();
    let known = KNOWN.get_or_init(|| {
        let dir = std::env::var("VERIF_DIR").unwrap_or_else(|_| "/verif".to_string());
        crate::infra::load_known(std::path::Path::new(&dir))
    });
    run_target(target, data).into_iter().filter(|(_, sig, _, _)| !known.iter().any(|k| k.signature == *sig)).collect()
}

/// seed corpus for a target, derived from the repository's golden frames
pub fn seed_inputs(target: &str) -> Vec<Vec<u8>> {
    let golden = crate::pool::golden_frames();
    let mut out: Vec<Vec<u8>> = Vec::new();
    match target {
        "decode_total" => {
            for (_, f) in &golden {
                if f.len() < 8 {
                    continue;
                }
                let p = &f[3..f.len() - 3];
                let number = crate::bits::get_bits(p, 0, 12).unwrap_or(0) as u16;
                if let Some(idx) = MSG_TABLE.iter().position(|r| r.number == number) {
                    // body = payload bits after the first 12, re-aligned to bytes
                    let nbits = p.len() * 8 - 12;
                    let mut w = crate::bits::BitW::new();
                    for i in 0..nbits {
                        w.put_bit((p[(12 + i) / 8] >> (7 - (12 + i) % 8)) & 1 == 1);
                    }
                    let mut v = vec![((idx >> 8) & 0x7F) as u8, idx as u8];
                    v.extend(w.into_bytes());
                    out.push(v);
                }
            }
        }
        "scan_model" => {
            for (i, (_, f)) in golden.iter().enumerate().take(120) {
                let mut v = vec![(i % 4) as u8 * 16, 0];
                v.extend(std::iter::repeat(77u8).take((i % 4) as usize));
                v.extend_from_slice(f);
                if i % 3 == 0 {
                    v.extend_from_slice(&golden[(i * 7 + 3) % golden.len()].1);
                }
                out.push(v);
            }
        }
        "builder_history" => {
            // two- to six-step histories walking through the pool at regular strides, every step kind present
            for k in 0..200u32 {
                let n = 1 + (k % 5) as u8;
                let mut v = vec![n];
                for j in 0..=(n as u32) {
                    let a = (k.wrapping_mul(409).wrapping_add(j * 9973) % 65536) as u16;
                    let b = (k.wrapping_mul(31).wrapping_add(j * 7)) as u16;
                    v.push(((k + j) % 8) as u8);
                    v.extend_from_slice(&a.to_le_bytes());
                    v.extend_from_slice(&b.to_le_bytes());
                    v.extend_from_slice(&[0x80, 0x80, 0x80, 0x80, 3, 1, 2, 3, 4, 5, 6, 7, 8]);
                    v.extend_from_slice(&[0x40, 0x40, 0x40, 0x40, (k % 16) as u8, 8, 7, 6, 5, 4, 3, 2, 1]);
                    v.push(0);
                }
                out.push(v);
            }
        }
        "msm_masks" => {
            for c in 0..7u8 {
                for l in 0..7u8 {
                    for shape in 0..3u8 {
                        let mut v = vec![c, l];
                        let satm: u64 = match shape {
                            0 => 0x8000_0000_0000_0001,
                            1 => 0xFFFF_0000_0000_0000,
                            _ => 0x0102_0408_1020_4080,
                        };
                        v.extend_from_slice(&satm.to_le_bytes());
                        v.extend_from_slice(&[0x07u32, 0x01, 0xFFFF_FFFF][shape as usize].to_le_bytes());
                        v.extend_from_slice(&0xA5A5_5A5A_F00F_0FF0u64.to_le_bytes());
                        v.extend_from_slice(&[1, 2, 3, 4, 5, 6, 7, 8]);
                        v.extend_from_slice(&[9, 9, 9, 9, 9, 9, 9, shape]);
                        v.extend(std::iter::repeat(0x5Au8).take(64));
                        out.push(v);
                    }
                }
            }
        }
        "bias_lists" => {
            for m in 0..3u8 {
                for n in [0usize, 1, 4, 33, 70, 200, 390] {
                    for first in [0u8, 1, 7] {
                        let mut v = vec![m, first];
                        for i in 0..n {
                            v.extend_from_slice(&[(i / 12) as u8, (i % 12) as u8, (i * 37) as u8, (i * 11) as u8, (i % 3) as u8 * 65]);
                        }
                        out.push(v);
                    }
                }
            }
        }
        "text_fields" => {
            for t in msggen::TEXT_TOKENS.iter() {
                for reps in [1usize, 7, 31, 127, 255] {
                    let mut v = vec![0u8];
                    let mut n = 0;
                    'outer: loop {
                        for ch in t.chars() {
                            let cp = ch as u32;
                            if cp < 0xF0 {
                                v.push(cp as u8);
                            } else {
                                v.extend_from_slice(&[0xF0, (cp >> 16) as u8, (cp >> 8) as u8, cp as u8]);
                            }
                            n += 1;
                            if n >= reps {
                                break 'outer;
                            }
                        }
                        if t.is_empty() {
                            break;
                        }
                    }
                    out.push(v);
                }
                let mut f = vec![0x80u8, t.chars().count() as u8, t.len() as u8];
                f.extend_from_slice(t.as_bytes());
                out.push(f);
            }
            out.push(vec![0x80, 2, 3, 0xE2, 0x82, 0x28]);
            out.push(vec![0x80, 1, 4, 0xF0, 0x9F, 0x98]);
        }
        _ => {
            for t in 0..MSG_TABLE.len() {
                let ti = ((t * 65536 + 32768) / MSG_TABLE.len()) as u16;
                for b in [0u16, 30000, 60000] {
                    let mut v = ti.to_le_bytes().to_vec();
                    v.extend_from_slice(&b.to_le_bytes());
                    v.extend_from_slice(&[0x80, 0x80, 0x80, 0x80, 3, 1, 2, 3, 4, 5, 6, 7, 8]);
                    out.push(v);
                }
            }
        }
    }
    out
}
