//! Decoding of libFuzzer inputs into structured cases and the semantic oracles run on them. Shared by the
//! cargo-fuzz targets (/verif/fuzz) and by `vcheck fuzz-replay`, so that a crash artefact is re-judged by exactly
//! the same oracle without libFuzzer before it is reported.
use crate::bits::hex;
use crate::checks::{c01, c02, c05, c09, c20};
use crate::frame::frame;
use crate::msggen::{self, MutOp, Recipe};
use crate::registry::MSG_TABLE;
use serde_json::{json, Value as J};

/// (property, signature, message, replay case)
pub type Finding = (String, String, String, J);

fn prop_of(sig: &str) -> String {
    if sig.starts_with("panic:") {
        return String::new();
    }
    sig.split(':').next().unwrap_or("").to_uppercase()
}

/// decode_total: bytes 0..1 select the message number (index into the supported list, or a raw 12-bit number when
/// the top bit of byte 0 is set); the rest is the payload after the 12-bit number. Framing (length, CRC) is done here.
pub fn decode_total_frame(data: &[u8]) -> Option<Vec<u8>> {
    if data.len() < 2 {
        return None;
    }
    let sel = ((data[0] as usize) << 8) | data[1] as usize;
    let number: u16 = if data[0] & 0x80 != 0 { (sel & 0xFFF) as u16 } else { MSG_TABLE[sel % MSG_TABLE.len()].number };
    let body = &data[2..];
    let body = &body[..body.len().min(1021)];
    // payload = 12-bit number, then the body shifted by 4 bits (so every body bit is reachable)
    let mut w = crate::bits::BitW::new();
    w.put(number as u64, 12);
    w.put_bytes(body);
    let mut p = w.into_bytes();
    p.truncate(1023);
    Some(frame(&p))
}
pub fn run_decode_total(data: &[u8]) -> Vec<Finding> {
    let mut out = Vec::new();
    let f = match decode_total_frame(data) {
        Some(f) => f,
        None => return out,
    };
    if let Err((sig, msg)) = c02::oracle_frame(&f) {
        out.push(("C02".to_string(), sig, msg, json!({"kind":"frame","bytes":hex(&f)})));
        return out;
    }
    if let Err((sig, msg)) = c01::oracle_b(&f) {
        let p = if sig.starts_with("panic:") { "C01".to_string() } else { prop_of(&sig) };
        out.push((p, sig, msg, json!({"kind":"frame","bytes":hex(&f)})));
    }
    if let Some(m) = msggen::decode_frame(&f) {
        if msggen::is_typed(&m) {
            if let Err((sig, msg)) = c20::oracle(&m) {
                out.push(("C20".to_string(), sig, msg, json!({"kind":"frame","bytes":hex(&f)})));
            }
        }
    }
    out
}

/// scan_model: byte 0 = mode; mode bit 0: fix up the CRC of the k-th 0xD3 candidate (k = byte 1) so that valid,
/// damaged and nested frames all occur; bytes 2..2+n (n = mode>>4) are chunk cut positions (scaled); rest = stream.
pub fn scan_model_case(data: &[u8]) -> Option<(Vec<u8>, Vec<usize>)> {
    if data.len() < 3 {
        return None;
    }
    let mode = data[0];
    let k = data[1] as usize;
    let ncuts = (mode >> 4) as usize;
    if data.len() < 2 + ncuts {
        return None;
    }
    let cut_bytes = &data[2..2 + ncuts];
    let mut buf = data[2 + ncuts..].to_vec();
    buf.truncate(2200);
    if mode & 1 == 1 {
        let cands: Vec<usize> = buf.iter().enumerate().filter(|(_, b)| **b == 0xD3).map(|(i, _)| i).collect();
        if !cands.is_empty() {
            let reps = 1 + ((mode >> 1) & 3) as usize;
            for r in 0..reps {
                let i = cands[(k + r * 7) % cands.len()];
                if i + 3 <= buf.len() {
                    let l = (((buf[i + 1] & 3) as usize) << 8) | buf[i + 2] as usize;
                    if i + l + 6 <= buf.len() {
                        let c = crate::crc::crc24q(&buf[i..i + l + 3]);
                        buf[i + l + 3] = (c >> 16) as u8;
                        buf[i + l + 4] = (c >> 8) as u8;
                        buf[i + l + 5] = c as u8;
                    }
                }
            }
        }
    }
    let n = buf.len();
    let cuts: Vec<usize> = cut_bytes.iter().map(|c| (*c as usize * (n + 1)) >> 8).collect();
    Some((buf, cuts))
}
pub fn run_scan_model(data: &[u8]) -> Vec<Finding> {
    let mut out = Vec::new();
    let (buf, cuts) = match scan_model_case(data) {
        Some(x) => x,
        None => return out,
    };
    if let Err((sig, msg)) = crate::infra::catch(|| c05::oracle_scan(&buf)).unwrap_or_else(|p| Err((crate::infra::panic_signature(&p), p))) {
        out.push(("C05".to_string(), sig, msg, json!({"kind":"stream","bytes":hex(&buf)})));
        return out;
    }
    if let Err((sig, msg)) = crate::infra::catch(|| c05::oracle_chunks(&buf, &cuts)).unwrap_or_else(|p| Err((crate::infra::panic_signature(&p), p))) {
        out.push(("C06".to_string(), sig, msg, json!({"kind":"chunked-stream","bytes":hex(&buf),"cuts":cuts})));
    }
    // C03 on the buffer as a slice and on every 0xD3 suffix (bounded)
    let mut checked = 0;
    for i in 0..buf.len() {
        if i == 0 || buf[i] == 0xD3 {
            if let Err((sig, msg)) = crate::checks::c03::oracle(&buf[i..]) {
                out.push(("C03".to_string(), sig, msg, json!({"kind":"slice","how":"fuzz","bytes":hex(&buf[i..])})));
                break;
            }
            checked += 1;
            if checked > 24 {
                break;
            }
        }
    }
    // whatever frames are found must decode totally
    if let Err((sig, msg)) = c02::oracle_stream(&buf) {
        out.push(("C02".to_string(), sig, msg, json!({"kind":"stream","bytes":hex(&buf)})));
    }
    out
}

/// encode_total: bytes -> recipe (type, base, ops) over the process-wide corpus
pub fn encode_total_recipe(data: &[u8]) -> Option<Recipe> {
    if data.len() < 4 {
        return None;
    }
    let type_index = u16::from_le_bytes([data[0], data[1]]);
    let base_index = u16::from_le_bytes([data[2], data[3]]);
    let mut ops: Vec<MutOp> = Vec::new();
    let mut i = 4;
    while i + 13 <= data.len() && ops.len() < 12 {
        let sel = u32::from_le_bytes([data[i], data[i + 1], data[i + 2], data[i + 3]]);
        let code = data[i + 4];
        let mut a = [0u8; 8];
        a.copy_from_slice(&data[i + 5..i + 13]);
        ops.push((sel, code, u64::from_le_bytes(a)));
        i += 13;
    }
    Some(Recipe { type_index, base_index, ops })
}
pub fn run_encode_total(data: &[u8]) -> Vec<Finding> {
    let mut out = Vec::new();
    let r = match encode_total_recipe(data) {
        Some(r) => r,
        None => return out,
    };
    let corp = msggen::corpus(FUZZ_CORPUS_SEED);
    let b = msggen::run_recipe(corp, &r, true);
    let m = match &b.message {
        Some(m) => m,
        None => return out,
    };
    let case = || json!({"kind":"message-value","number":b.number,"value":b.tree.to_json()});
    match c09::oracle(m) {
        Err((sig, msg)) => {
            out.push(("C09".to_string(), sig, msg, case()));
            return out;
        }
        Ok(_) => {}
    }
    if let Err((sig, msg)) = c01::oracle_a(m, &b.tree) {
        out.push(("C01".to_string(), sig, msg, case()));
    }
    if !b.tree.has_nan() {
        if let Err((sig, msg)) = c20::oracle(m) {
            out.push(("C20".to_string(), sig, msg, case()));
        }
    }
    out
}
/// the fuzz targets use a fixed corpus seed so that a saved input means the same recipe in every process
pub const FUZZ_CORPUS_SEED: u64 = 20261002;

pub fn run_target(target: &str, data: &[u8]) -> Vec<Finding> {
    match target {
        "decode_total" => run_decode_total(data),
        "scan_model" => run_scan_model(data),
        "encode_total" => run_encode_total(data),
        _ => Vec::new(),
    }
}

/// in-target use: findings whose signature is listed as an open known finding are tolerated so that a campaign
/// does not rediscover one crash forever (strict judging happens in `vcheck fuzz-replay`)
pub fn run_target_tolerant(target: &str, data: &[u8]) -> Vec<Finding> {
    use std::sync::OnceLock;
    static KNOWN: OnceLock<Vec<crate::infra::KnownFinding>> = OnceLock::new();
    let known = KNOWN.get_or_init(|| {
        let dir = std::env::var("VERIF_DIR").unwrap_or_else(|_| "/verif".to_string());
        crate::infra::load_known(std::path::Path::new(&dir))
    });
    run_target(target, data).into_iter().filter(|(_, sig, _, _)| !known.iter().any(|k| k.signature == *sig)).collect()
}

/// seed corpus for a target, derived from the repository's golden frames
pub fn seed_inputs(target: &str) -> Vec<Vec<u8>> {
    let golden = crate::pool::golden_frames();
    let mut out: Vec<Vec<u8>> = Vec::new();
    match target {
        "decode_total" => {
            for (_, f) in &golden {
                if f.len() < 8 {
                    continue;
                }
                let p = &f[3..f.len() - 3];
                let number = crate::bits::get_bits(p, 0, 12).unwrap_or(0) as u16;
                if let Some(idx) = MSG_TABLE.iter().position(|r| r.number == number) {
                    // body = payload bits after the first 12, re-aligned to bytes
                    let nbits = p.len() * 8 - 12;
                    let mut w = crate::bits::BitW::new();
                    for i in 0..nbits {
                        w.put_bit((p[(12 + i) / 8] >> (7 - (12 + i) % 8)) & 1 == 1);
                    }
                    let mut v = vec![((idx >> 8) & 0x7F) as u8, idx as u8];
                    v.extend(w.into_bytes());
                    out.push(v);
                }
            }
        }
        "scan_model" => {
            for (i, (_, f)) in golden.iter().enumerate().take(120) {
                let mut v = vec![(i % 4) as u8 * 16, 0];
                v.extend(std::iter::repeat(77u8).take((i % 4) as usize));
                v.extend_from_slice(f);
                if i % 3 == 0 {
                    v.extend_from_slice(&golden[(i * 7 + 3) % golden.len()].1);
                }
                out.push(v);
            }
        }
        _ => {
            for t in 0..MSG_TABLE.len() {
                let ti = ((t * 65536 + 32768) / MSG_TABLE.len()) as u16;
                for b in [0u16, 30000, 60000] {
                    let mut v = ti.to_le_bytes().to_vec();
                    v.extend_from_slice(&b.to_le_bytes());
                    v.extend_from_slice(&[0x80, 0x80, 0x80, 0x80, 3, 1, 2, 3, 4, 5, 6, 7, 8]);
                    out.push(v);
                }
            }
        }
    }
    out
}
