//! Independent CRC-24Q reference (generator 0x1864CFB, init 0, no reflection, no final xor).
const POLY: u32 = 0x1864CFB;

/// bit-at-a-time definition — the specification itself
pub fn crc24q_bitwise(data: &[u8]) -> u32 {
    let mut crc: u32 = 0;
    for &b in data {
        crc ^= (b as u32) << 16;
        for _ in 0..8 {
            crc <<= 1;
            if crc & 0x1000000 != 0 {
                crc ^= POLY;
            }
        }
    }
    crc & 0xFFFFFF
}

fn table() -> &'static [u32; 256] {
    use std::sync::OnceLock;
    static T: OnceLock<[u32; 256]> = OnceLock::new();
    T.get_or_init(|| {
        let mut t = [0u32; 256];
        for i in 0..256u32 {
            t[i as usize] = crc24q_bitwise(&[i as u8]);
        }
        t
    })
}

/// table-driven version of the same function (used where volume matters); checked against the bitwise one in self_check
pub fn crc24q(data: &[u8]) -> u32 {
    let t = table();
    let mut crc: u32 = 0;
    for &b in data {
        crc = ((crc << 8) & 0xFFFFFF) ^ t[(((crc >> 16) as u8) ^ b) as usize];
    }
    crc
}

pub fn self_check() {
    // catalogue check value of CRC-24/LTE-A ("123456789")
    assert_eq!(crc24q_bitwise(b"123456789"), 0xCDE703, "reference CRC-24Q self check");
    for t in [0u32, 1, 0xFFFFFF, 0xD30000, 0x123456] {
        let pre = [0xD3u8, 0x00, 0x07, 1, 2, 3, 4];
        let tail = tail_for_crc(&pre, t);
        let mut all = pre.to_vec();
        all.extend_from_slice(&tail);
        assert_eq!(crc24q_bitwise(&all), t, "tail_for_crc self check");
    }
    let mut x = 12345u64;
    for n in 0..64usize {
        let v: Vec<u8> = (0..n * 5).map(|_| crate::rng::splitmix(&mut x) as u8).collect();
        assert_eq!(crc24q(&v), crc24q_bitwise(&v));
    }
}

/// three bytes x such that crc24q(prefix ++ x) == target. The CRC is affine in x: crc(prefix ++ x) = crc(prefix ++ 000) ^ L(x)
/// with L(x) = crc24q(x) a linear bijection on 24 bits; L is inverted once by Gaussian elimination over GF(2).
pub fn tail_for_crc(prefix: &[u8], target: u32) -> [u8; 3] {
    let mut zeros = prefix.to_vec();
    zeros.extend_from_slice(&[0, 0, 0]);
    let a = crc24q(&zeros);
    let want = (target ^ a) & 0xFFFFFF;
    let inv = l_inverse();
    let mut x: u32 = 0;
    for bit in 0..24 {
        if (want >> bit) & 1 == 1 {
            x ^= inv[bit];
        }
    }
    [(x >> 16) as u8, (x >> 8) as u8, x as u8]
}
/// inv[i] = L^-1(e_i)
fn l_inverse() -> &'static [u32; 24] {
    use std::sync::OnceLock;
    static I: OnceLock<[u32; 24]> = OnceLock::new();
    I.get_or_init(|| {
        // rows: (L(e_j), e_j); eliminate to get (e_i, L^-1(e_i))
        let mut rows: Vec<(u32, u32)> = (0..24).map(|j| { let x = 1u32 << j; (crc24q(&[(x >> 16) as u8, (x >> 8) as u8, x as u8]), x) }).collect();
        let mut inv = [0u32; 24];
        for bit in 0..24 {
            let p = (bit..24).find(|r| (rows[*r].0 >> bit) & 1 == 1).expect("CRC map is a bijection");
            rows.swap(bit, p);
            let (pv, px) = rows[bit];
            for r in 0..24 {
                if r != bit && (rows[r].0 >> bit) & 1 == 1 {
                    rows[r].0 ^= pv;
                    rows[r].1 ^= px;
                }
            }
        }
        for bit in 0..24 {
            debug_assert_eq!(rows[bit].0, 1 << bit);
            inv[bit] = rows[bit].1;
        }
        inv
    })
}
