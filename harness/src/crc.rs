//! Independent CRC-24Q reference (generator 0x1864CFB, init 0, no reflection, no final xor).
const POLY: u32 = 0x1864CFB;

/// bit-at-a-time definition — the specification itself
pub fn crc24q_bitwise(data: &[u8]) -> u32 {
    let mut crc: u32 = 0;
    for &b in data {
        crc ^= (b as u32) << 16;
        for _ in 0..8 {
            crc <<= 1;
            if crc & 0x1000000 != 0 {
                crc ^= POLY;
            }
        }
    }
    crc & 0xFFFFFF
}

fn table() -> &'static [u32; 256] {
    use std::sync::OnceLock;
    static T: OnceLock<[u32; 256]> = OnceLock::new();
    T.get_or_init(|| {
        let mut t = [0u32; 256];
        for i in 0..256u32 {
            t[i as usize] = crc24q_bitwise(&[i as u8]);
        }
        t
    })
}

/// table-driven version of the same function (used where volume matters); checked against the bitwise one in self_check
pub fn crc24q(data: &[u8]) -> u32 {
    let t = table();
    let mut crc: u32 = 0;
    for &b in data {
        crc = ((crc << 8) & 0xFFFFFF) ^ t[(((crc >> 16) as u8) ^ b) as usize];
    }
    crc
}

pub fn self_check() {
    // catalogue check value of CRC-24/LTE-A ("123456789")
    assert_eq!(crc24q_bitwise(b"123456789"), 0xCDE703, "reference CRC-24Q self check");
    let mut x = 12345u64;
    for n in 0..64usize {
        let v: Vec<u8> = (0..n * 5).map(|_| crate::rng::splitmix(&mut x) as u8).collect();
        assert_eq!(crc24q(&v), crc24q_bitwise(&v));
    }
}
