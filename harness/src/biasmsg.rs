//! Wire layouts of the three hand-written bias lists (1059, 1065, 1230) as implemented by the crate, used to
//! synthesise frames bit by bit. Header widths: 1059 = 12+20+4+1+4+16+4, 1065 = 12+17+4+1+4+16+4, 1230 = 12+12+1.
use crate::bits::BitW;

#[derive(Clone, Copy, Debug, PartialEq, Eq)]
pub enum BiasMsg {
    M1059,
    M1065,
    M1230,
}
impl BiasMsg {
    pub fn number(self) -> u16 {
        match self {
            BiasMsg::M1059 => 1059,
            BiasMsg::M1065 => 1065,
            BiasMsg::M1230 => 1230,
        }
    }
    pub fn header_bits(self) -> usize {
        match self {
            BiasMsg::M1059 => 61,
            BiasMsg::M1065 => 58,
            BiasMsg::M1230 => 25,
        }
    }
    pub fn sat_bits(self) -> usize {
        match self {
            BiasMsg::M1059 => 6,
            BiasMsg::M1065 => 5,
            BiasMsg::M1230 => 0,
        }
    }
    pub fn bias_bits(self) -> usize {
        match self {
            BiasMsg::M1230 => 16,
            _ => 14,
        }
    }
    pub fn step(self) -> f64 {
        match self {
            BiasMsg::M1230 => 0.02,
            _ => 0.01,
        }
    }
    /// wire signal ids (5-bit code) recognised for the SSR code-bias lists, with their descriptors (band, attribute).
    /// 1059 (GPS): RTCM SSR table "GPS signal and tracking mode identifier"; 1065 (GLONASS) likewise.
    pub fn signals(self) -> &'static [(u8, u8, char)] {
        match self {
            BiasMsg::M1059 => &[
                (0, 1, 'C'), (1, 1, 'P'), (2, 1, 'W'), (5, 2, 'C'), (6, 2, 'D'), (7, 2, 'S'), (8, 2, 'L'), (9, 2, 'X'), (10, 2, 'P'), (11, 2, 'W'), (14, 5, 'I'), (15, 5, 'Q'),
            ],
            BiasMsg::M1065 => &[(0, 1, 'C'), (1, 1, 'P'), (2, 2, 'C'), (3, 2, 'P')],
            // 1230: mask bit order L1 C/A, L1 P, L2 C/A, L2 P
            BiasMsg::M1230 => &[(0, 1, 'C'), (1, 1, 'P'), (2, 2, 'C'), (3, 2, 'P')],
        }
    }
}

/// header with the message number and `hdr` (the remaining header bits, low bits used)
fn put_header(w: &mut BitW, m: BiasMsg, hdr: u64) {
    w.put(m.number() as u64, 12);
    w.put(hdr, m.header_bits() - 12);
}

/// SSR code-bias payload: groups = [(satellite, [(wire signal id, 14-bit pattern)])]
pub fn ssr_payload(m: BiasMsg, hdr: u64, groups: &[(u8, Vec<(u8, u16)>)], declared_sat_count: Option<u8>) -> Vec<u8> {
    let mut w = BitW::new();
    put_header(&mut w, m, hdr);
    w.put(declared_sat_count.unwrap_or(groups.len() as u8) as u64, 6);
    for (sat, entries) in groups {
        w.put(*sat as u64, m.sat_bits());
        w.put(entries.len() as u64, 5);
        for (sig, pat) in entries {
            w.put(*sig as u64, 5);
            w.put(*pat as u64, 14);
        }
    }
    w.into_bytes()
}

/// 1230 payload: mask (4 bits, MSB = L1 C/A) and one 16-bit pattern per set bit
pub fn glo_payload(hdr: u64, mask: u8, pats: &[u16]) -> Vec<u8> {
    let mut w = BitW::new();
    put_header(&mut w, BiasMsg::M1230, hdr);
    w.put(mask as u64, 4);
    for p in pats {
        w.put(*p as u64, 16);
    }
    w.into_bytes()
}
