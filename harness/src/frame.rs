//! Reference framing: builder, acceptance predicate and stream scanner — a direct transcription of the C03/C05
//! statements, independent of the crate under test (own CRC).
use crate::crc::crc24q;

/// frame(p): 0xD3, 6 reserved bits, 10-bit length, payload, CRC-24Q
pub fn frame_with_reserved(payload: &[u8], reserved: u8) -> Vec<u8> {
    assert!(payload.len() <= 1023);
    let mut f = Vec::with_capacity(payload.len() + 6);
    f.push(0xD3);
    f.push(((reserved & 0x3F) << 2) | ((payload.len() >> 8) as u8 & 3));
    f.push(payload.len() as u8);
    f.extend_from_slice(payload);
    let c = crc24q(&f);
    f.push((c >> 16) as u8);
    f.push((c >> 8) as u8);
    f.push(c as u8);
    f
}
pub fn frame(payload: &[u8]) -> Vec<u8> {
    frame_with_reserved(payload, 0)
}

/// payload with a 12-bit message number followed by `body_bits` (bit string starting at payload bit 12)
pub fn payload_with_number(number: u16, rest: &[u8], rest_bits: usize) -> Vec<u8> {
    let mut w = crate::bits::BitW::new();
    w.put(number as u64, 12);
    for i in 0..rest_bits {
        let b = (rest[i / 8] >> (7 - i % 8)) & 1 == 1;
        w.put_bit(b);
    }
    w.into_bytes()
}

#[derive(Debug, Clone, Copy, PartialEq, Eq)]
pub enum RefVerdict {
    /// accepted; payload length L
    Accept(usize),
    /// begins with 0xD3 (or is too short to tell) but shorter than its declared extent
    Incomplete,
    /// not a frame: wrong preamble, or complete candidate with wrong checksum
    NotValid,
}

/// Reference acceptance predicate on a slice that is supposed to *begin* with a frame.
/// Slices shorter than 6 bytes cannot hold even an empty frame: a D3-prefixed one is "shorter than its declared
/// extent" whatever it declares (the extent is at least 6); for non-D3 slices callers only rely on "not accepted".
pub fn ref_check(s: &[u8]) -> RefVerdict {
    if s.is_empty() {
        return RefVerdict::Incomplete;
    }
    if s[0] != 0xD3 {
        return RefVerdict::NotValid;
    }
    if s.len() < 3 {
        return RefVerdict::Incomplete;
    }
    let l = (((s[1] & 3) as usize) << 8) | s[2] as usize;
    if s.len() < l + 6 {
        return RefVerdict::Incomplete;
    }
    let c = crc24q(&s[..l + 3]);
    let got = ((s[l + 3] as u32) << 16) | ((s[l + 4] as u32) << 8) | s[l + 5] as u32;
    if c == got {
        RefVerdict::Accept(l)
    } else {
        RefVerdict::NotValid
    }
}

/// Reference scanner (C05): earliest 0xD3 position that is complete and valid → (end, Some(start..end));
/// an earlier 0xD3 that starts a still-incomplete candidate → (its position, None); otherwise (len, None).
pub fn ref_scan(buf: &[u8]) -> (usize, Option<(usize, usize)>) {
    for i in 0..buf.len() {
        if buf[i] != 0xD3 {
            continue;
        }
        match ref_check(&buf[i..]) {
            RefVerdict::Accept(l) => return (i + l + 6, Some((i, i + l + 6))),
            RefVerdict::Incomplete => return (i, None),
            RefVerdict::NotValid => {}
        }
    }
    (buf.len(), None)
}

/// all frames delivered by repeatedly applying ref_scan (what the iterator must yield) and the total consumed
pub fn ref_scan_all(buf: &[u8]) -> (Vec<(usize, usize)>, usize) {
    let mut idx = 0usize;
    let mut out = Vec::new();
    while idx < buf.len() {
        let (c, f) = ref_scan(&buf[idx..]);
        if let Some((a, b)) = f {
            out.push((idx + a, idx + b));
        }
        idx += c;
        if f.is_none() {
            break;
        }
    }
    (out, idx)
}
