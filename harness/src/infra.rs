//! Check plumbing: context (tier, seed), evidence accumulation, violation / replay files, known findings,
//! panic capture.
use serde_json::{json, Value as J};
use std::collections::{BTreeMap, HashSet};
use std::path::PathBuf;
use std::sync::Mutex;
use std::time::Instant;

#[derive(Clone, Copy, Debug, PartialEq, Eq)]
pub enum Tier {
    Quick,
    Thorough,
}
impl Tier {
    pub fn name(self) -> &'static str {
        match self {
            Tier::Quick => "quick",
            Tier::Thorough => "thorough",
        }
    }
    pub fn pick<T>(self, q: T, t: T) -> T {
        match self {
            Tier::Quick => q,
            Tier::Thorough => t,
        }
    }
}

#[derive(Clone, Debug)]
pub struct Ctx {
    pub prop: String,
    pub tier: Tier,
    pub seed: u64,
    /// "release" or "ovf"
    pub profile: String,
    pub verif_dir: PathBuf,
    /// multiplies the thorough-tier budgets (VERIF_SCALE, default 1.0)
    pub scale: f64,
    /// open known findings (from known_findings.txt)
    pub known: Vec<KnownFinding>,
}
impl Ctx {
    pub fn n(&self, quick: u64, thorough: u64) -> u64 {
        match self.tier {
            Tier::Quick => quick,
            Tier::Thorough => ((thorough as f64) * self.scale).max(1.0) as u64,
        }
    }
    pub fn rng(&self, label: &str, idx: u64) -> crate::rng::Rng {
        crate::rng::Rng::derive(self.seed, &format!("{}/{}/{}", self.prop, self.profile_label(), label), idx)
    }
    pub fn is_known(&self, sig: &str) -> bool {
        self.known.iter().any(|k| k.property == self.prop && k.signature == sig)
    }
    fn profile_label(&self) -> &str {
        // both profiles explore the same cases on purpose (differential between configurations)
        ""
    }
}

#[derive(Clone, Debug)]
pub struct Violation {
    pub property: String,
    /// stable identification of the failure class (used to match known findings)
    pub signature: String,
    pub message: String,
    /// replay payload: {"kind":..., ...}
    pub case: J,
}

/// bound of the distinct-case hash set (quick 6 M, thorough 40 M entries; set once at start-up)
static DISTINCT_CAP_V: std::sync::atomic::AtomicUsize = std::sync::atomic::AtomicUsize::new(6_000_000);
pub fn set_distinct_cap(n: usize) {
    DISTINCT_CAP_V.store(n, std::sync::atomic::Ordering::Relaxed);
}
#[allow(non_snake_case)]
fn distinct_cap() -> usize {
    DISTINCT_CAP_V.load(std::sync::atomic::Ordering::Relaxed)
}

pub struct Evidence {
    pub evaluations: u64,
    /// hash set of distinct non-trivial cases (bounded; beyond the bound further cases are not counted → conservative)
    distinct: HashSet<u64>,
    /// added directly for exhaustively enumerated sub-domains whose elements are distinct by construction
    pub distinct_by_construction: u64,
    pub classes: BTreeMap<String, u64>,
    pub samples: Vec<J>,
    pub sample_cap: usize,
    pub notes: Vec<String>,
    pub exhaustive: Option<bool>,
    pub extra: BTreeMap<String, J>,
    pub excluded_known: u64,
}
impl Default for Evidence {
    fn default() -> Self {
        Evidence {
            evaluations: 0,
            distinct: HashSet::new(),
            distinct_by_construction: 0,
            classes: BTreeMap::new(),
            samples: Vec::new(),
            sample_cap: 12,
            notes: Vec::new(),
            exhaustive: None,
            extra: BTreeMap::new(),
            excluded_known: 0,
        }
    }
}
impl Evidence {
    pub fn new() -> Self {
        Self::default()
    }
    pub fn eval(&mut self) {
        self.evaluations += 1;
    }
    pub fn nontrivial_hash(&mut self, h: u64) {
        if self.distinct.len() < distinct_cap() {
            self.distinct.insert(h);
        }
    }
    pub fn nontrivial_bytes(&mut self, b: &[u8]) {
        self.nontrivial_hash(hash_bytes(b));
    }
    pub fn class(&mut self, name: &str) {
        *self.classes.entry(name.to_string()).or_insert(0) += 1;
    }
    pub fn class_n(&mut self, name: &str, n: u64) {
        *self.classes.entry(name.to_string()).or_insert(0) += n;
    }
    pub fn sample(&mut self, s: J) {
        if self.samples.len() < self.sample_cap {
            self.samples.push(s);
        }
    }
    pub fn want_sample(&self) -> bool {
        self.samples.len() < self.sample_cap
    }
    pub fn distinct_count(&self) -> u64 {
        self.distinct.len() as u64 + self.distinct_by_construction
    }
    pub fn merge(&mut self, o: Evidence) {
        self.evaluations += o.evaluations;
        for h in o.distinct {
            if self.distinct.len() < distinct_cap() {
                self.distinct.insert(h);
            }
        }
        self.distinct_by_construction += o.distinct_by_construction;
        for (k, v) in o.classes {
            *self.classes.entry(k).or_insert(0) += v;
        }
        for s in o.samples {
            if self.samples.len() < self.sample_cap {
                self.samples.push(s);
            }
        }
        self.notes.extend(o.notes);
        self.excluded_known += o.excluded_known;
        if let Some(e) = o.exhaustive {
            self.exhaustive = Some(self.exhaustive.unwrap_or(true) && e);
        }
        for (k, v) in o.extra {
            self.extra.insert(k, v);
        }
    }
}

pub fn hash_bytes(b: &[u8]) -> u64 {
    // FNV-1a 64 followed by a finaliser
    let mut h: u64 = 0xcbf29ce484222325;
    for &x in b {
        h ^= x as u64;
        h = h.wrapping_mul(0x100000001b3);
    }
    let mut x = h;
    crate::rng::splitmix(&mut x)
}
pub fn hash_str(s: &str) -> u64 {
    hash_bytes(s.as_bytes())
}
pub fn hash_u64s(xs: &[u64]) -> u64 {
    let mut h = 0x1234_5678_9abc_def0u64;
    for &x in xs {
        h = crate::rng::mix(h, x);
    }
    h
}

pub struct CheckResult {
    pub evidence: Evidence,
    pub rule: String,
    pub assumptions: Vec<String>,
    pub violations: Vec<Violation>,
}

// ---------------------------------------------------------------------------------------------
// known findings
// ---------------------------------------------------------------------------------------------
#[derive(Clone, Debug)]
pub struct KnownFinding {
    pub property: String,
    pub signature: String,
    pub text: String,
}
/// lines:  `open: property=<id> signature=<sig> <what fails>`   (suppresses exactly that signature)
///         `fixed: property=<id> <commit> <what failed>`         (suppresses nothing)
pub fn load_known(verif_dir: &std::path::Path) -> Vec<KnownFinding> {
    let p = verif_dir.join("known_findings.txt");
    let mut out = Vec::new();
    if let Ok(s) = std::fs::read_to_string(p) {
        for line in s.lines() {
            let l = line.trim();
            if let Some(rest) = l.strip_prefix("open:") {
                let rest = rest.trim();
                let mut prop = String::new();
                let mut sig = String::new();
                let mut words = Vec::new();
                for w in rest.split_whitespace() {
                    if let Some(v) = w.strip_prefix("property=") {
                        prop = v.to_string();
                    } else if let Some(v) = w.strip_prefix("signature=") {
                        sig = v.to_string();
                    } else {
                        words.push(w);
                    }
                }
                if !prop.is_empty() && !sig.is_empty() {
                    out.push(KnownFinding { property: prop, signature: sig, text: words.join(" ") });
                }
            }
        }
    }
    out
}

// ---------------------------------------------------------------------------------------------
// panic capture
// ---------------------------------------------------------------------------------------------
thread_local! {
    static LAST_PANIC: std::cell::RefCell<Option<String>> = const { std::cell::RefCell::new(None) };
    static QUIET: std::cell::Cell<bool> = const { std::cell::Cell::new(false) };
}
static HOOK_INSTALLED: Mutex<bool> = Mutex::new(false);

/// first panic that happened outside `catch` (any thread)
pub static LAST_UNCAUGHT: std::sync::Mutex<Option<String>> = std::sync::Mutex::new(None);

pub fn install_panic_hook() {
    let mut g = HOOK_INSTALLED.lock().unwrap();
    if *g {
        return;
    }
    *g = true;
    let prev = std::panic::take_hook();
    std::panic::set_hook(Box::new(move |info| {
        let loc = info
            .location()
            .map(|l| format!("{}:{}", l.file(), l.line()))
            .unwrap_or_else(|| "?".into());
        let msg = if let Some(s) = info.payload().downcast_ref::<&str>() {
            s.to_string()
        } else if let Some(s) = info.payload().downcast_ref::<String>() {
            s.clone()
        } else {
            "<non-string panic>".to_string()
        };
        let quiet = QUIET.with(|q| q.get());
        LAST_PANIC.with(|p| *p.borrow_mut() = Some(format!("{} @ {}", msg, loc)));
        if !quiet {
            // not inside catch(): remember the first one for the top-level handler in main
            if let Ok(mut g) = LAST_UNCAUGHT.lock() {
                if g.is_none() {
                    *g = Some(format!("{} @ {}", msg, loc));
                }
            }
            prev(info);
        }
    }));
}

/// Runs f, converting a panic into Err("message @ file:line"). The panic is not printed.
pub fn catch<T>(f: impl FnOnce() -> T) -> Result<T, String> {
    install_panic_hook();
    let was = QUIET.with(|q| q.replace(true));
    LAST_PANIC.with(|p| *p.borrow_mut() = None);
    let r = std::panic::catch_unwind(std::panic::AssertUnwindSafe(f));
    QUIET.with(|q| q.set(was));
    match r {
        Ok(v) => Ok(v),
        Err(_) => Err(LAST_PANIC.with(|p| p.borrow_mut().take()).unwrap_or_else(|| "panic".into())),
    }
}

/// normalise a panic description to a stable signature: strip numbers that depend on the input
pub fn panic_signature(p: &str) -> String {
    // keep "file:line" (after '@') and the alphabetic skeleton of the message
    let (msg, loc) = match p.rsplit_once(" @ ") {
        Some((m, l)) => (m, l),
        None => (p, "?"),
    };
    let skel: String = msg
        .chars()
        .map(|c| if c.is_ascii_digit() { '#' } else if c.is_whitespace() { '_' } else { c })
        .collect();
    let mut s = String::new();
    let mut last = ' ';
    for c in skel.chars() {
        if c == '#' && last == '#' {
            continue;
        }
        s.push(c);
        last = c;
    }
    let loc = loc.rsplit('/').take(2).collect::<Vec<_>>().into_iter().rev().collect::<Vec<_>>().join("/");
    format!("panic:{}:{}", loc, s.chars().take(60).collect::<String>())
}

// ---------------------------------------------------------------------------------------------
// writing evidence / replay
// ---------------------------------------------------------------------------------------------
pub fn write_replay(ctx: &Ctx, v: &Violation, idx: usize) -> PathBuf {
    let dir = ctx.verif_dir.join("replays");
    let _ = std::fs::create_dir_all(&dir);
    let name = format!("{}-{}-{}-{}.json", v.property, ctx.tier.name(), ctx.seed, idx);
    let p = dir.join(name);
    let doc = json!({
        "property": v.property,
        "signature": v.signature,
        "message": v.message,
        "seed": ctx.seed,
        "tier": ctx.tier.name(),
        "profile": ctx.profile,
        "case": v.case,
    });
    std::fs::write(&p, serde_json::to_string_pretty(&doc).unwrap()).expect("write replay");
    p
}

pub fn evidence_json(ctx: &Ctx, res: &CheckResult, wall_s: f64, unknown_violations: usize) -> J {
    let ev = &res.evidence;
    let mut cov = serde_json::Map::new();
    cov.insert("evaluations".into(), json!(ev.evaluations));
    cov.insert("distinct_nontrivial".into(), json!(ev.distinct_count()));
    cov.insert("rule".into(), json!(res.rule));
    cov.insert("samples".into(), J::Array(ev.samples.clone()));
    if let Some(e) = ev.exhaustive {
        cov.insert("exhaustive".into(), json!(e));
    }
    cov.insert("classes".into(), json!(ev.classes));
    if ev.excluded_known > 0 {
        cov.insert("excluded_known_findings".into(), json!(ev.excluded_known));
    }
    let mut notes = ev.notes.clone();
    if ev.distinct.len() >= distinct_cap() {
        notes.push(format!("distinct_nontrivial is a lower bound: the hash set of distinct cases is capped at {} entries", distinct_cap()));
    }
    if !notes.is_empty() {
        cov.insert("notes".into(), json!(notes));
    }
    for (k, v) in &ev.extra {
        cov.insert(k.clone(), v.clone());
    }
    cov.insert("profiles".into(), json!([ctx.profile]));
    json!({
        "property_id": ctx.prop,
        "tier": ctx.tier.name(),
        "seed": ctx.seed,
        "level": "exploration",
        "coverage": J::Object(cov),
        "assumptions": res.assumptions,
        "wall_s": wall_s,
        "violations": unknown_violations,
    })
}

/// merge the evidence of a second profile run into the first (counts add, samples concatenate)
pub fn merge_evidence_json(a: &J, b: &J) -> J {
    let mut out = a.clone();
    let add = |x: &J, y: &J| json!(x.as_u64().unwrap_or(0) + y.as_u64().unwrap_or(0));
    {
        let ca = a["coverage"].clone();
        let cb = b["coverage"].clone();
        let co = out["coverage"].as_object_mut().unwrap();
        co.insert("evaluations".into(), add(&ca["evaluations"], &cb["evaluations"]));
        // the same cases are explored in both profiles: distinct inputs = max, not sum
        let d = ca["distinct_nontrivial"].as_u64().unwrap_or(0).max(cb["distinct_nontrivial"].as_u64().unwrap_or(0));
        co.insert("distinct_nontrivial".into(), json!(d));
        let mut s = ca["samples"].as_array().cloned().unwrap_or_default();
        s.extend(cb["samples"].as_array().cloned().unwrap_or_default());
        co.insert("samples".into(), J::Array(s));
        let mut p = ca["profiles"].as_array().cloned().unwrap_or_default();
        p.extend(cb["profiles"].as_array().cloned().unwrap_or_default());
        co.insert("profiles".into(), J::Array(p));
        co.insert("classes_second_profile".into(), cb["classes"].clone());
        if let (Some(x), Some(y)) = (ca.get("excluded_known_findings"), cb.get("excluded_known_findings")) {
            co.insert("excluded_known_findings".into(), add(x, y));
        } else if let Some(y) = cb.get("excluded_known_findings") {
            co.insert("excluded_known_findings".into(), y.clone());
        }
    }
    out["wall_s"] = json!(a["wall_s"].as_f64().unwrap_or(0.0) + b["wall_s"].as_f64().unwrap_or(0.0));
    out["violations"] = json!(a["violations"].as_i64().unwrap_or(0) + b["violations"].as_i64().unwrap_or(0));
    out
}

pub struct Timer(Instant);
impl Timer {
    pub fn start() -> Self {
        Timer(Instant::now())
    }
    pub fn secs(&self) -> f64 {
        self.0.elapsed().as_secs_f64()
    }
}

/// run `n` independent shards on the rayon pool and merge their evidence; each shard returns (Evidence, violations)
pub fn par_shards<F>(n: usize, f: F) -> (Evidence, Vec<Violation>)
where
    F: Fn(usize) -> (Evidence, Vec<Violation>) + Sync + Send,
{
    use rayon::prelude::*;
    let parts: Vec<(Evidence, Vec<Violation>)> = (0..n).into_par_iter().map(|i| f(i)).collect();
    let mut ev = Evidence::new();
    let mut vs = Vec::new();
    for (e, v) in parts {
        ev.merge(e);
        vs.extend(v);
    }
    (ev, vs)
}

// ---------------------------------------------------------------------------------------------
// proptest driver (library use inside the binary)
// ---------------------------------------------------------------------------------------------
pub const PT_SHARDS: usize = 32;

/// Runs `total_cases` proptest cases over PT_SHARDS independent runners (seeds derived from VERIF_SEED, label and
/// shard). `test` gets the value and the shard's evidence accumulator (only while not shrinking) and returns
/// Err((signature, message)) on a property violation. The first failing shard's *shrunk* value becomes the violation.
pub fn pt_run<V, S>(
    ctx: &Ctx,
    label: &str,
    total_cases: u64,
    mk: impl Fn() -> S + Sync + Send,
    test: impl Fn(&V, Option<&mut Evidence>) -> Result<(), (String, String)> + Sync + Send,
    to_case: impl Fn(&V) -> J + Sync + Send,
) -> (Evidence, Vec<Violation>)
where
    V: std::fmt::Debug + Clone,
    S: proptest::strategy::Strategy<Value = V>,
{
    use proptest::test_runner::{Config, RngSeed, TestCaseError, TestError, TestRunner};
    use std::cell::{Cell, RefCell};
    let per = ((total_cases + PT_SHARDS as u64 - 1) / PT_SHARDS as u64).max(1) as u32;
    let known: Vec<String> = ctx.known.iter().filter(|k| k.property == ctx.prop).map(|k| k.signature.clone()).collect();
    par_shards(PT_SHARDS, |shard| {
        let seed = crate::rng::mix(crate::rng::mix(ctx.seed, crate::rng::label_hash(label)), shard as u64);
        let mut cfg = Config::default();
        cfg.cases = per;
        cfg.rng_seed = RngSeed::Fixed(seed);
        cfg.failure_persistence = None;
        cfg.max_shrink_iters = 4000;
        cfg.max_shrink_time = 0;
        cfg.verbose = 0;
        cfg.source_file = None;
        cfg.max_global_rejects = 1_000_000;
        let mut runner = TestRunner::new(cfg);
        let ev = RefCell::new(Evidence::new());
        let failed = Cell::new(false);
        let strat = mk();
        let res = runner.run(&strat, |v| {
            let r = if failed.get() {
                catch(|| test(&v, None))
            } else {
                let mut e = ev.borrow_mut();
                e.evaluations += 1;
                catch(|| test(&v, Some(&mut e)))
            };
            let r = match r {
                Ok(r) => r,
                Err(p) => Err((panic_signature(&p), format!("panic: {}", p))),
            };
            match r {
                Ok(()) => Ok(()),
                Err((sig, msg)) => {
                    if known.iter().any(|k| *k == sig) {
                        if !failed.get() {
                            ev.borrow_mut().excluded_known += 1;
                        }
                        Ok(())
                    } else {
                        failed.set(true);
                        Err(TestCaseError::fail(format!("{} :: {}", sig, msg)))
                    }
                }
            }
        });
        let mut vs = Vec::new();
        if let Err(e) = res {
            match e {
                TestError::Fail(reason, v) => {
                    // recompute signature/message on the shrunk value
                    let (sig, msg) = match catch(|| test(&v, None)) {
                        Ok(Err(x)) => x,
                        Err(p) => (panic_signature(&p), format!("panic: {}", p)),
                        Ok(Ok(())) => ("unstable".to_string(), format!("shrunk value no longer fails; proptest reason: {}", reason)),
                    };
                    vs.push(Violation { property: ctx.prop.clone(), signature: sig, message: msg, case: to_case(&v) });
                }
                TestError::Abort(reason) => {
                    ev.borrow_mut().notes.push(format!("proptest shard {} aborted: {}", shard, reason));
                }
            }
        }
        (ev.into_inner(), vs)
    })
}

// ---------------------------------------------------------------------------------------------
// running one case in a child process (for inputs that may kill the process: stack overflow, abort)
// ---------------------------------------------------------------------------------------------
#[derive(Debug)]
pub enum ChildOutcome {
    Ok,
    Violation(String),
    /// killed by a signal / aborted / unexpected status
    Died(String),
}
pub fn run_case_in_child(ctx: &Ctx, case: &J, tag: &str) -> ChildOutcome {
    use std::os::unix::process::ExitStatusExt;
    let dir = ctx.verif_dir.join(".work").join("child");
    let _ = std::fs::create_dir_all(&dir);
    let file = dir.join(format!("{}-{}-{}-{}.json", ctx.prop, ctx.profile, std::process::id(), tag));
    let doc = json!({"property": ctx.prop, "case": case});
    if std::fs::write(&file, serde_json::to_string(&doc).unwrap()).is_err() {
        return ChildOutcome::Died("cannot write the case file".into());
    }
    let exe = match std::env::current_exe() {
        Ok(e) => e,
        Err(e) => return ChildOutcome::Died(format!("current_exe: {}", e)),
    };
    let out = std::process::Command::new(exe)
        .arg(&ctx.prop)
        .arg("--tier")
        .arg(ctx.tier.name())
        .arg("--profile")
        .arg(&ctx.profile)
        .arg("--replay")
        .arg(&file)
        .env("VERIF_CHILD", "1")
        .output();
    let r = match out {
        Err(e) => ChildOutcome::Died(format!("cannot start child: {}", e)),
        Ok(o) => {
            let text = format!("{}{}", String::from_utf8_lossy(&o.stdout), String::from_utf8_lossy(&o.stderr));
            if let Some(sig) = o.status.signal() {
                ChildOutcome::Died(format!("killed by signal {} ({})", sig, text.lines().rev().find(|l| !l.trim().is_empty()).unwrap_or("").chars().take(160).collect::<String>()))
            } else {
                match o.status.code() {
                    Some(0) => ChildOutcome::Ok,
                    Some(1) => ChildOutcome::Violation(text.lines().find(|l| l.starts_with("violation")).unwrap_or("violation in child").chars().take(300).collect()),
                    Some(c) => ChildOutcome::Died(format!("exit status {} ({})", c, text.lines().rev().find(|l| !l.trim().is_empty()).unwrap_or("").chars().take(160).collect::<String>())),
                    None => ChildOutcome::Died("no exit status".into()),
                }
            }
        }
    };
    let _ = std::fs::remove_file(&file);
    r
}
