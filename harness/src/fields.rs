//! Registry of the `df!` numeric field codecs (generated from /repo/src/df/dfs.rs by build.rs) seen through the
//! verification hook, with monomorphic sweep / round-trip / real-input entry points per field.
use rtcm_rs::verif_hook::{dfs, Assembler, Parser};

pub trait FieldVal: Clone + std::fmt::Debug {
    fn absent(&self) -> bool;
    fn finite(&self) -> bool;
    fn to_f64(&self) -> Option<f64>;
    fn from_real(x: f64) -> Self;
    const IS_FLOAT: bool;
    const IS_F32: bool;
}
macro_rules! fv_int {
    ($($t:ty),*) => {$(
        impl FieldVal for $t {
            #[inline] fn absent(&self) -> bool { false }
            #[inline] fn finite(&self) -> bool { true }
            #[inline] fn to_f64(&self) -> Option<f64> { Some(*self as f64) }
            #[inline] fn from_real(x: f64) -> Self { x as $t }
            const IS_FLOAT: bool = false;
            const IS_F32: bool = false;
        }
    )*};
}
fv_int!(u8, u16, u32, u64, i8, i16, i32, i64, usize);
impl FieldVal for f32 {
    #[inline]
    fn absent(&self) -> bool {
        false
    }
    #[inline]
    fn finite(&self) -> bool {
        self.is_finite()
    }
    #[inline]
    fn to_f64(&self) -> Option<f64> {
        Some(*self as f64)
    }
    #[inline]
    fn from_real(x: f64) -> Self {
        x as f32
    }
    const IS_FLOAT: bool = true;
    const IS_F32: bool = true;
}
impl FieldVal for f64 {
    #[inline]
    fn absent(&self) -> bool {
        false
    }
    #[inline]
    fn finite(&self) -> bool {
        self.is_finite()
    }
    #[inline]
    fn to_f64(&self) -> Option<f64> {
        Some(*self)
    }
    #[inline]
    fn from_real(x: f64) -> Self {
        x
    }
    const IS_FLOAT: bool = true;
    const IS_F32: bool = false;
}
impl<T: FieldVal> FieldVal for Option<T> {
    #[inline]
    fn absent(&self) -> bool {
        self.is_none()
    }
    #[inline]
    fn finite(&self) -> bool {
        match self {
            Some(v) => v.finite(),
            None => true,
        }
    }
    #[inline]
    fn to_f64(&self) -> Option<f64> {
        self.as_ref().and_then(|v| v.to_f64())
    }
    #[inline]
    fn from_real(x: f64) -> Self {
        Some(T::from_real(x))
    }
    const IS_FLOAT: bool = T::IS_FLOAT;
    const IS_F32: bool = T::IS_F32;
}

/// result of decode(pattern) -> encode
#[derive(Clone, Copy, Debug)]
pub struct Rt {
    pub ok: bool,
    pub out: u64,
    pub offset: usize,
    pub absent: bool,
    pub finite: bool,
}

#[derive(Clone, Debug, Default)]
pub struct SweepAcc {
    pub patterns: u64,
    pub absent: u64,
    pub first_absent: Option<u64>,
    pub neg_zero_normalised: u64,
    /// first failures: (pattern, description)
    pub failures: Vec<(u64, String)>,
}

pub struct FieldDesc {
    pub name: &'static str,
    pub width: u32,
    pub it: &'static str,
    pub dt: &'static str,
    pub optional: bool,
    pub is_float: bool,
    pub is_f32: bool,
    pub rt: fn(u64) -> Rt,
    pub sweep: fn(u64, u64, bool, &mut SweepAcc),
    /// decode a pattern: Ok((absent, value as f64))
    pub dec: fn(u64) -> Result<(bool, Option<f64>), String>,
    /// encode a real input (converted to the field's data type): Ok(pattern)
    pub enc_real: fn(f64) -> Result<u64, String>,
    /// encode the type's default value (None for optional fields)
    pub enc_default: fn() -> Result<u64, String>,
}

#[inline(always)]
fn pat_to_buf(p: u64, w: u32) -> [u8; 8] {
    (p << (64 - w)).to_be_bytes()
}
#[inline(always)]
fn buf_to_pat(b: &[u8; 16], w: u32) -> u64 {
    let mut a = [0u8; 8];
    a.copy_from_slice(&b[..8]);
    u64::from_be_bytes(a) >> (64 - w)
}

macro_rules! gen_fields {
    ( $( ($id:ident, $dt:ty, $it:ident, $len:literal, $kind:ident), )* ) => {
        $(
            #[allow(non_snake_case)]
            pub mod $id {
                use super::*;
                pub type DT = dfs::$id::DataType;
                /// decode the pattern, encode the result over a buffer pre-filled with 0xFF for even and 0x00 for odd
                /// patterns (an encoder must set the field's bits whatever was there before)
                #[inline(always)]
                pub fn rt(p: u64) -> Rt {
                    rt_bg(p, if p & 1 == 0 { 0xFF } else { 0x00 })
                }
                #[inline(always)]
                pub fn rt_bg(p: u64, bg: u8) -> Rt {
                    let inb = pat_to_buf(p, $len);
                    let mut par = Parser::new(&inb, 0);
                    let v: DT = match dfs::$id::decode(&mut par) {
                        Ok(v) => v,
                        Err(_) => return Rt { ok: false, out: 0, offset: 0, absent: false, finite: false },
                    };
                    let mut outb = [bg; 16];
                    let mut asm = Assembler::new(&mut outb, 0);
                    let ok = dfs::$id::encode(&mut asm, &v).is_ok();
                    let offset = asm.offset();
                    Rt { ok, out: buf_to_pat(&outb, $len), offset, absent: v.absent(), finite: v.finite() }
                }
                pub fn sweep(lo: u64, hi: u64, sm_neg_zero_allowed: bool, acc: &mut SweepAcc) {
                    let neg_zero: u64 = 1u64 << ($len - 1);
                    let mut p = lo;
                    while p < hi {
                        let mut r = rt(p);
                        // the extreme patterns over both backgrounds
                        if p == 0 || p == neg_zero || p == (neg_zero - 1) | neg_zero || p == neg_zero - 1 {
                            let r2 = rt_bg(p, if p & 1 == 0 { 0x00 } else { 0xFF });
                            if r2.out != r.out || r2.ok != r.ok {
                                r.ok = false;
                            }
                        }
                        acc.patterns += 1;
                        if r.absent {
                            acc.absent += 1;
                            if acc.first_absent.is_none() { acc.first_absent = Some(p); }
                        }
                        let same = r.out == p || (sm_neg_zero_allowed && p == neg_zero && r.out == 0);
                        if r.out != p && same { acc.neg_zero_normalised += 1; }
                        if !(r.ok && same && r.offset == $len && r.finite) && acc.failures.len() < 4 {
                            acc.failures.push((p, format!("ok={} out={:#x} offset={} finite={}", r.ok, r.out, r.offset, r.finite)));
                        }
                        p += 1;
                    }
                }
                pub fn dec(p: u64) -> Result<(bool, Option<f64>), String> {
                    let inb = pat_to_buf(p, $len);
                    let mut par = Parser::new(&inb, 0);
                    match dfs::$id::decode(&mut par) {
                        Ok(v) => Ok((v.absent(), v.to_f64())),
                        Err(e) => Err(format!("{:?}", e)),
                    }
                }
                pub fn enc_real(x: f64) -> Result<u64, String> {
                    let v: DT = <DT as FieldVal>::from_real(x);
                    let mut outb = [0u8; 16];
                    let mut asm = Assembler::new(&mut outb, 0);
                    match dfs::$id::encode(&mut asm, &v) {
                        Ok(()) => {
                            if asm.offset() != $len { return Err(format!("offset {} after encode", asm.offset())); }
                            Ok(buf_to_pat(&outb, $len))
                        }
                        Err(e) => Err(format!("{:?}", e)),
                    }
                }
                pub fn enc_default() -> Result<u64, String> {
                    let v: DT = Default::default();
                    let mut outb = [0u8; 16];
                    let mut asm = Assembler::new(&mut outb, 0);
                    match dfs::$id::encode(&mut asm, &v) {
                        Ok(()) => Ok(buf_to_pat(&outb, $len)),
                        Err(e) => Err(format!("{:?}", e)),
                    }
                }
            }
        )*
        pub static FIELDS: &[FieldDesc] = &[
            $(
                FieldDesc {
                    name: stringify!($id),
                    width: $len,
                    it: stringify!($it),
                    dt: stringify!($dt),
                    optional: gen_fields!(@opt $kind),
                    is_float: <$id::DT as FieldVal>::IS_FLOAT,
                    is_f32: <$id::DT as FieldVal>::IS_F32,
                    rt: $id::rt,
                    sweep: $id::sweep,
                    dec: $id::dec,
                    enc_real: $id::enc_real,
                    enc_default: $id::enc_default,
                },
            )*
        ];
    };
    (@opt inv) => { true };
    (@opt ord) => { false };
}
include!(concat!(env!("OUT_DIR"), "/fields_list.rs"));
for_each_df_field!(gen_fields);

/// The sign-magnitude fields of RTCM 10403.3 (GLONASS ephemeris 1020 and the GLONASS part of 1021-ish fields):
/// DF111-DF119 (velocity/position/acceleration components), DF121 tau_n? no: DF121 = gamma_n, DF124 = tau_n,
/// DF125 = delta tau_n, DF133 = tau_c, DF135 = tau_GPS. Typed from the standard, not from the source.
pub const PINNED_SIGN_MAGNITUDE: &[&str] = &[
    "df111", "df112", "df113", "df114", "df115", "df116", "df117", "df118", "df119", "df121", "df124", "df125", "df133", "df135",
];
pub fn is_pinned_sm(name: &str) -> bool {
    PINNED_SIGN_MAGNITUDE.iter().any(|n| *n == name)
}
