//! Shared generators of frames (decoder side) and messages (encoder side: recipes over the Value tree).
use crate::biasmsg::{glo_payload, ssr_payload, BiasMsg};
use crate::bits::{get_bits, set_bits, BitW};
use crate::frame::frame;
use crate::infra::catch;
use crate::msm::{self, Cons};
use crate::registry::{self, MSG_TABLE};
use crate::rng::{RandAdapter, Rng};
use crate::value::{from_value, schema_key, to_value, Path, Step, Value};
use rtcm_rs::prelude::*;
use std::collections::BTreeMap;

/// decode through one of the two public entry points (which one depends on the frame length only, so that every check
/// sees both and a replay is deterministic)
pub fn decode_frame(f: &[u8]) -> Option<Message> {
    MessageFrame::new(f).ok().map(|m| if f.len() & 1 == 0 { m.get_message() } else { Message::from_message_frame(&m) })
}
pub fn is_typed(m: &Message) -> bool {
    !matches!(m, Message::Empty | Message::Corrupt | Message::MsgNotSupported(_))
}
pub fn build(m: &Message) -> Result<Vec<u8>, String> {
    let mut b = MessageBuilder::new();
    b.build_message(m).map(|f| f.to_vec()).map_err(|e| format!("{:?}", e))
}

// ------------------------------------------------------------------------------------------------
// (b) the crate's own generator (feature test_gen) as a seed source; never reported itself
// ------------------------------------------------------------------------------------------------
pub fn generated_frame(rng: &mut Rng, number: u16, max_per_1024: u64) -> Option<Vec<u8>> {
    let s1 = rng.next_u64();
    let s2 = rng.next_u64();
    let s3 = rng.next_u64();
    let r = catch(move || {
        let mut vg = rtcm_rs::val_gen::ValGen::new(
            RandAdapter { rng: Rng::new(s1), max_per_1024 },
            RandAdapter { rng: Rng::new(s2), max_per_1024 },
            RandAdapter { rng: Rng::new(s3), max_per_1024: 0 },
        );
        let mut b = MessageBuilder::new();
        b.build_generated_message(&mut vg, number).ok().map(|f| f.to_vec())
    });
    match r {
        Ok(Some(f)) => Some(f),
        _ => None,
    }
}

// ------------------------------------------------------------------------------------------------
// (c) synthesiser: payloads with structure where random bits would almost always be rejected
// ------------------------------------------------------------------------------------------------
#[derive(Clone, Copy, Debug, PartialEq, Eq)]
pub enum SynthClass {
    Density,
    Truncated,
    MsmValid,
    MsmHostile,
    BiasList,
    BiasHostile,
    Text,
    TextBad,
    CountEdge,
}
impl SynthClass {
    pub fn name(self) -> &'static str {
        match self {
            SynthClass::Density => "density",
            SynthClass::Truncated => "truncated",
            SynthClass::MsmValid => "msm-valid",
            SynthClass::MsmHostile => "msm-hostile(>64 cells)",
            SynthClass::BiasList => "bias-list",
            SynthClass::BiasHostile => "bias-hostile(counts beyond capacity)",
            SynthClass::Text => "text",
            SynthClass::TextBad => "text-invalid",
            SynthClass::CountEdge => "count-edge",
        }
    }
    pub fn hostile(self) -> bool {
        !matches!(self, SynthClass::Density | SynthClass::MsmValid | SynthClass::BiasList | SynthClass::Text)
    }
}

fn with_number(number: u16, mut body: Vec<u8>) -> Vec<u8> {
    if body.len() < 2 {
        body.resize(2, 0);
    }
    set_bits(&mut body, 0, 12, number as u64);
    body
}

/// count fields that can be set to interesting values: (payload bit offset, width, capacity) per message number.
/// Typed from the standard's layouts (see DESIGN.md §3 C15).
pub fn count_field(number: u16) -> Option<(usize, usize, usize)> {
    Some(match number {
        1001..=1004 => (55, 5, 31),
        1009..=1012 => (52, 5, 31),
        1013 => (57, 5, 31),
        1015..=1017 => (72, 4, 15),
        1037..=1039 => (69, 4, 15),
        1030 | 1303 | 1304 => (51, 5, 31),
        1031 => (48, 5, 31),
        1034 => (44, 5, 31),
        1035 => (41, 5, 31),
        1057 => (62, 6, 60),
        1063 => (59, 6, 60),
        1060 => (62, 6, 39),
        1066 => (59, 6, 39),
        1058 | 1061 | 1062 => (61, 6, 63),
        1064 | 1067 | 1068 => (58, 6, 63),
        1007 | 1008 | 1033 => (24, 8, 31),
        1021 | 1022 | 1300 | 1301 | 1302 => (12, 5, 31),
        _ => return None,
    })
}

pub fn bias_msg_of(number: u16) -> Option<BiasMsg> {
    match number {
        1059 => Some(BiasMsg::M1059),
        1065 => Some(BiasMsg::M1065),
        1230 => Some(BiasMsg::M1230),
        _ => None,
    }
}

pub fn synth_payload(rng: &mut Rng, number: u16) -> (Vec<u8>, SynthClass) {
    // structured families first
    if let Some((cons, level)) = Cons::of_number(number) {
        let r = rng.below(10);
        if r < 5 {
            let spec = msm::random_spec(rng, cons, level, 64);
            let mut p = spec.synth();
            if rng.below(8) == 0 {
                let extra = rng.bytes_len(1, 20);
                p.extend(extra);
                p.truncate(1023);
            }
            return (p, SynthClass::MsmValid);
        } else if r < 8 {
            // hostile: more than 64 mask cells
            let ng = 2 + rng.below(cons.table().len().min(31) as u64 - 1) as usize;
            let ns = (65 / ng + 1 + rng.below(30) as usize).min(64);
            let mut spec = msm::spec_with_shape(rng, cons, level, ns, ng);
            if rng.below(3) == 0 {
                // all 32 signal bits set (also unrecognised positions)
                spec.sigs = (1..=32).collect();
                spec.cells = (0..spec.sats.len() * 32).map(|_| rng.below(2) == 0).collect();
            }
            let mut p = spec.synth();
            p.truncate(1023);
            if rng.below(2) == 0 {
                let n = 1 + rng.below(p.len() as u64) as usize;
                p.truncate(n.max(2));
            }
            return (p, SynthClass::MsmHostile);
        }
    }
    if let Some(bm) = bias_msg_of(number) {
        let r = rng.below(10);
        if bm == BiasMsg::M1230 {
            if r < 7 {
                let mask = rng.below(16) as u8;
                let n = mask.count_ones() as usize;
                let pats: Vec<u16> = (0..n).map(|_| rng.next_u32() as u16).collect();
                let mut p = glo_payload(rng.next_u64(), mask, &pats);
                if rng.below(4) == 0 && p.len() > 3 {
                    let k = 2 + rng.below(p.len() as u64 - 2) as usize;
                    p.truncate(k);
                    return (p, SynthClass::Truncated);
                }
                return (p, SynthClass::BiasList);
            }
        } else if r < 8 {
            let sat_range: u64 = if bm == BiasMsg::M1059 { 64 } else { 32 };
            let hostile = r >= 4;
            let mut groups: Vec<(u8, Vec<(u8, u16)>)> = Vec::new();
            let mut bits = bm.header_bits() + 6;
            let ngroups = if hostile { 1 + rng.below(63) } else { rng.below(20) };
            let unrec = rng.below(3) == 0;
            for _ in 0..ngroups {
                let nb = if hostile {
                    match rng.below(3) {
                        0 => 31,
                        1 => rng.below(32),
                        _ => 20 + rng.below(12),
                    }
                } else {
                    rng.below(8)
                } as usize;
                let mut entries = Vec::new();
                for _ in 0..nb {
                    let sig = if unrec && rng.below(10) == 0 { rng.below(32) as u8 } else { bm.signals()[rng.below(bm.signals().len() as u64) as usize].0 };
                    entries.push((sig, rng.next_u32() as u16 & 0x3FFF));
                }
                let cost = bm.sat_bits() + 5 + entries.len() * 19;
                if bits + cost > 1023 * 8 {
                    break;
                }
                bits += cost;
                groups.push((rng.below(sat_range) as u8, entries));
            }
            let declared = if hostile && rng.below(3) == 0 { Some(rng.below(64) as u8) } else { None };
            let p = ssr_payload(bm, rng.next_u64(), &groups, declared);
            return (p, if hostile { SynthClass::BiasHostile } else { SynthClass::BiasList });
        }
    }
    if number == 1029 {
        let r = rng.below(10);
        if r < 8 {
            let mut w = BitW::new();
            w.put(1029, 12);
            w.put(rng.next_u64(), 12 + 16 + 17); // station, MJD, seconds of day
            let bad = r >= 5;
            let mut text: Vec<u8> = Vec::new();
            let nchars = rng.below(130) as usize;
            for _ in 0..nchars {
                let c = match rng.below(5) {
                    0 => char::from_u32(0x20 + rng.below(0x5f) as u32).unwrap(),
                    1 => char::from_u32(0xA0 + rng.below(0x60) as u32).unwrap(),
                    2 => char::from_u32(0x400 + rng.below(0x100) as u32).unwrap(),
                    3 => char::from_u32(0x4e00 + rng.below(0x1000) as u32).unwrap(),
                    _ => char::from_u32(0x1F600 + rng.below(0x40) as u32).unwrap(),
                };
                let mut b = [0u8; 4];
                let s = c.encode_utf8(&mut b);
                if text.len() + s.len() > 255 {
                    break;
                }
                text.extend_from_slice(s.as_bytes());
            }
            let mut declared_bytes = text.len();
            if bad {
                match rng.below(4) {
                    0 if !text.is_empty() => {
                        let i = rng.below(text.len() as u64) as usize;
                        text[i] = 0xFF;
                    }
                    1 if !text.is_empty() => {
                        // cut inside a multi-byte character
                        let i = rng.below(text.len() as u64) as usize;
                        text.truncate(i);
                        text.push(0xE4);
                        declared_bytes = text.len();
                    }
                    2 => declared_bytes = (text.len() + 1 + rng.below(40) as usize).min(255),
                    _ => {
                        text.push(0xC0);
                        text.push(0x20);
                        declared_bytes = text.len().min(255);
                    }
                }
                declared_bytes = declared_bytes.min(255);
            }
            let chars = if rng.below(4) == 0 { rng.below(128) } else { (nchars as u64).min(127) };
            w.put(chars, 7);
            w.put(declared_bytes as u64, 8);
            w.put_bytes(&text);
            return (w.into_bytes(), if bad { SynthClass::TextBad } else { SynthClass::Text });
        }
    }
    if let Some((off, width, cap)) = count_field(number) {
        if rng.below(3) == 0 {
            let len = match rng.below(4) {
                0 => 1023,
                1 => 2 + rng.below(60) as usize,
                _ => 2 + rng.below(1022) as usize,
            };
            let class = rng.below(6);
            let mut p = with_number(number, crate::pool::payload_of_class(rng, len, class));
            let maxv = (1u64 << width) - 1;
            let choices = [0, cap as u64 / 2, cap as u64, (cap as u64 + 1).min(maxv), maxv, rng.below(maxv + 1)];
            let v = choices[rng.below(choices.len() as u64) as usize];
            if off + width <= p.len() * 8 {
                set_bits(&mut p, off, width, v);
            }
            return (p, SynthClass::CountEdge);
        }
    }
    // generic density payload of arbitrary length
    let len = match rng.below(6) {
        0 => 1023,
        1 => 2,
        2 => 2 + rng.below(12) as usize,
        _ => 2 + rng.below(1022) as usize,
    };
    let class = rng.below(6);
    let p = with_number(number, crate::pool::payload_of_class(rng, len, class));
    (p, SynthClass::Density)
}

/// (d) havoc mutation of a payload (message number kept), CRC recomputed by the caller's framing
pub fn havoc(rng: &mut Rng, payload: &[u8]) -> Vec<u8> {
    let mut p = payload.to_vec();
    if p.len() < 2 {
        p.resize(2, 0);
    }
    let number = get_bits(&p, 0, 12).unwrap_or(0);
    let n = 1 + rng.below(4);
    for _ in 0..n {
        match rng.below(7) {
            0 | 1 => {
                let k = 1 + rng.below(8);
                for _ in 0..k {
                    let b = rng.below(p.len() as u64 * 8) as usize;
                    p[b / 8] ^= 0x80 >> (b % 8);
                }
            }
            2 => {
                let i = rng.below(p.len() as u64) as usize;
                p[i] = [0x00, 0xFF, 0x7F, 0x80, 0xD3][rng.below(5) as usize];
            }
            3 => {
                // truncation
                let k = 2 + rng.below(p.len() as u64 - 1) as usize;
                p.truncate(k.max(2));
            }
            4 => {
                // extension
                let extra = rng.bytes_len(1, 64);
                p.extend(extra);
            }
            5 => {
                // splice a random run
                let i = rng.below(p.len() as u64) as usize;
                let run = rng.bytes_len(1, 16);
                for (k, b) in run.iter().enumerate() {
                    if i + k < p.len() {
                        p[i + k] = *b;
                    }
                }
            }
            _ => {
                // set a run of bits to ones
                let b = rng.below(p.len() as u64 * 8) as usize;
                let l = 1 + rng.below(40) as usize;
                for k in b..(b + l).min(p.len() * 8) {
                    p[k / 8] |= 0x80 >> (k % 8);
                }
            }
        }
    }
    p.truncate(1023);
    set_bits(&mut p, 0, 12, number);
    p
}

/// a decoder-side frame of one of the generator classes for `number`
pub fn any_frame(rng: &mut Rng, number: u16, golden: &[Vec<u8>]) -> (Vec<u8>, &'static str, bool) {
    let r = rng.below(10);
    if r < 2 && !golden.is_empty() {
        let g = &golden[rng.below(golden.len() as u64) as usize];
        if rng.below(2) == 0 {
            return (g.clone(), "golden", false);
        }
        let p = havoc(rng, &g[3..g.len() - 3]);
        return (frame(&p), "golden+havoc", true);
    }
    if r < 5 {
        let mx = if rng.below(2) == 0 { 0 } else { 24 };
        if let Some(f) = generated_frame(rng, number, mx) {
            if rng.below(3) == 0 {
                let p = havoc(rng, &f[3..f.len() - 3]);
                return (frame(&p), "generated+havoc", true);
            }
            return (f, "generated", false);
        }
    }
    let (p, class) = synth_payload(rng, number);
    if rng.below(6) == 0 {
        let p2 = havoc(rng, &p);
        return (frame(&p2), "synth+havoc", true);
    }
    (frame(&p), class.name(), class.hostile())
}

// ------------------------------------------------------------------------------------------------
// encoder side: corpus of base messages (as Value trees), learned templates, recipes
// ------------------------------------------------------------------------------------------------
pub struct TypeCorpus {
    pub number: u16,
    pub bases: Vec<Value>,
    /// schema key of a Seq node -> (template element, capacity found by probing the deserialiser)
    pub seq_templates: BTreeMap<String, (Value, usize)>,
    /// schema key of an Option node -> template inner value
    pub opt_templates: BTreeMap<String, Value>,
    /// schema key of a numeric leaf -> (min, max) observed over the bases (the all-zero and all-one golden vectors are
    /// among them, so this approximates the field's representable range)
    pub num_ranges: BTreeMap<String, (f64, f64)>,
}
pub struct Corpus {
    pub types: Vec<TypeCorpus>,
}

pub fn message_to_value(m: &Message) -> Value {
    to_value(m).expect("Message serialises")
}
pub fn value_to_message(v: &Value) -> Result<Message, String> {
    from_value::<Message>(v).map_err(|e| e.0)
}

fn learn(v: &Value, tc: &mut TypeCorpus) {
    let mut all = Vec::new();
    v.walk(&mut Vec::new(), &mut all);
    for (path, node) in all {
        match node {
            Value::Seq(items) if !items.is_empty() => {
                let key = schema_key(&path);
                tc.seq_templates.entry(key).or_insert_with(|| (items[0].clone(), 0));
            }
            Value::Some(inner) => {
                let key = schema_key(&path);
                tc.opt_templates.entry(key).or_insert_with(|| (**inner).clone());
            }
            n if n.is_leaf_number() => {
                if let Some(x) = n.as_f64() {
                    if x.is_finite() {
                        let key = schema_key(&path);
                        let e = tc.num_ranges.entry(key).or_insert((x, x));
                        if x < e.0 {
                            e.0 = x;
                        }
                        if x > e.1 {
                            e.1 = x;
                        }
                    }
                }
            }
            _ => {}
        }
    }
}

/// capacity of a list slot = largest n for which the tree with n copies still deserialises
fn probe_capacity(base: &Value, path: &Path, template: &Value) -> usize {
    let fits = |n: usize| -> bool {
        let mut t = base.clone();
        if let Some(Value::Seq(items)) = t.get_mut(path) {
            *items = vec![template.clone(); n];
        } else {
            return false;
        }
        value_to_message(&t).is_ok()
    };
    if !fits(1) {
        return 0;
    }
    let mut lo = 1usize;
    let mut hi = 2usize;
    while hi <= 1024 && fits(hi) {
        lo = hi;
        hi *= 2;
    }
    while lo + 1 < hi {
        let mid = (lo + hi) / 2;
        if fits(mid) {
            lo = mid;
        } else {
            hi = mid;
        }
    }
    lo
}

impl Corpus {
    /// bases: Default, decoded golden frames, decoded generated and synthesised frames (typed decodes only)
    pub fn build(seed: u64, per_type_generated: usize) -> Corpus {
        let golden = crate::pool::golden_frames();
        let mut types = Vec::new();
        for row in MSG_TABLE {
            let mut tc = TypeCorpus { number: row.number, bases: Vec::new(), seq_templates: BTreeMap::new(), opt_templates: BTreeMap::new(), num_ranges: BTreeMap::new() };
            if let Some(m) = registry::default_message(row.number) {
                tc.bases.push(message_to_value(&m));
            }
            let mut rng = Rng::derive(seed, "corpus", row.number as u64);
            let mut add = |tc: &mut TypeCorpus, f: &[u8]| {
                if let Ok(Some(m)) = catch(|| decode_frame(f)) {
                    if is_typed(&m) && m.number() == Some(row.number) {
                        let v = message_to_value(&m);
                        if !tc.bases.contains(&v) {
                            tc.bases.push(v);
                        }
                    }
                }
            };
            for (name, f) in &golden {
                if name.starts_with(&format!("msg{}_", row.number)) {
                    add(&mut tc, f);
                }
            }
            for i in 0..per_type_generated {
                if let Some(f) = generated_frame(&mut rng, row.number, if i % 3 == 2 { 24 } else { 0 }) {
                    add(&mut tc, &f);
                }
                let (p, class) = synth_payload(&mut rng, row.number);
                if !class.hostile() {
                    add(&mut tc, &frame(&p));
                }
            }
            let bases = tc.bases.clone();
            for b in &bases {
                learn(b, &mut tc);
            }
            // capacities
            let keys: Vec<String> = tc.seq_templates.keys().cloned().collect();
            for key in keys {
                // find a base containing that slot
                'outer: for b in &bases {
                    let mut all = Vec::new();
                    b.walk(&mut Vec::new(), &mut all);
                    for (path, node) in all {
                        if matches!(node, Value::Seq(_)) && schema_key(&path) == key {
                            let tpl = tc.seq_templates[&key].0.clone();
                            let cap = probe_capacity(b, &path, &tpl);
                            tc.seq_templates.get_mut(&key).unwrap().1 = cap;
                            break 'outer;
                        }
                    }
                }
            }
            types.push(tc);
        }
        Corpus { types }
    }
    pub fn of(&self, number: u16) -> Option<&TypeCorpus> {
        self.types.iter().find(|t| t.number == number)
    }
}

/// one mutation: (node selector, operation selector, argument)
pub type MutOp = (u32, u8, u64);

#[derive(Clone, Copy, Debug, PartialEq, Eq)]
pub enum OpClass {
    FloatOffGrid,
    FloatInRange,
    IntInRange,
    FloatExtreme,
    FloatNonFinite,
    IntBoundary,
    IntRandom,
    OptionToggle,
    ListPermute,
    ListGrow,
    ListShrink,
    ListFill,
    Text,
    CharChange,
    Noop,
}
impl OpClass {
    pub fn out_of_domain(self) -> bool {
        matches!(self, OpClass::FloatExtreme | OpClass::FloatNonFinite | OpClass::IntBoundary | OpClass::IntRandom | OpClass::ListFill | OpClass::CharChange)
    }
    pub fn name(self) -> &'static str {
        match self {
            OpClass::FloatOffGrid => "float-off-grid",
            OpClass::FloatInRange => "float-in-observed-range",
            OpClass::IntInRange => "int-in-observed-range",
            OpClass::FloatExtreme => "float-extreme",
            OpClass::FloatNonFinite => "float-nan-inf",
            OpClass::IntBoundary => "int-boundary",
            OpClass::IntRandom => "int-random",
            OpClass::OptionToggle => "option-toggle",
            OpClass::ListPermute => "list-permute",
            OpClass::ListGrow => "list-grow",
            OpClass::ListShrink => "list-shrink",
            OpClass::ListFill => "list-fill-to-capacity",
            OpClass::Text => "text",
            OpClass::CharChange => "char",
            OpClass::Noop => "noop",
        }
    }
}

pub const TEXT_LENGTHS: &[usize] = &[0, 1, 6, 7, 8, 30, 31, 32, 33, 64, 126, 127, 128, 129, 200, 254, 255, 256, 300];

/// tokens that text-processing code tends to treat specially (escapes, entities, format directives, separators)
pub const TEXT_TOKENS: &[&str] = &[
    "\\u0041", "\\u00e9", "\\uBEEF", "\\x41", "\\n", "\\t", "\\0", "\\\\", "\\", "%20", "%s", "%00", "&amp;", "&#65;", "\"", "'", "`", "${x}", "{}", "{0}", "<", ">", "/*", "*/", "//", "\n", "\r\n",
    "\t", ";", ",", "=", "NaN", "null", "true", "0x41", "\u{feff}", "\u{a4}", "\u{ff}", "\u{80}", "..", "\\\"",
];
pub fn gen_token_text(r: &mut Rng, max_chars: usize) -> String {
    let mut s = String::new();
    let n = 1 + r.below(8);
    for _ in 0..n {
        match r.below(3) {
            0 => s.push_str(TEXT_TOKENS[r.below(TEXT_TOKENS.len() as u64) as usize]),
            1 => {
                for _ in 0..r.below(6) {
                    s.push(char::from_u32(0x30 + r.below(0x4B) as u32).unwrap());
                }
            }
            _ => {
                s.push_str(TEXT_TOKENS[r.below(TEXT_TOKENS.len() as u64) as usize]);
                s.push_str(TEXT_TOKENS[r.below(TEXT_TOKENS.len() as u64) as usize]);
            }
        }
    }
    s.chars().take(max_chars).collect()
}

pub fn gen_text(arg: u64) -> String {
    let mut r = Rng::new(arg);
    if r.below(5) == 0 {
        let cap = [7usize, 31, 40, 127, 255][r.below(5) as usize];
        return gen_token_text(&mut r, cap);
    }
    let len = TEXT_LENGTHS[r.below(TEXT_LENGTHS.len() as u64) as usize];
    let style = r.below(7);
    let mut s = String::new();
    for i in 0..len {
        let c = match style {
            0 => char::from_u32(0x20 + r.below(0x5f) as u32).unwrap(),
            1 => char::from_u32(0xA1 + r.below(0x5e) as u32).unwrap(),
            2 => {
                if r.below(6) == 0 {
                    '\0'
                } else {
                    char::from_u32(0x41 + r.below(26) as u32).unwrap()
                }
            }
            3 => char::from_u32(0x100 + r.below(0x700) as u32).unwrap(),
            4 => char::from_u32(0x1F600 + r.below(0x40) as u32).unwrap(),
            5 => {
                // mostly ASCII with a multi-byte character near the end (straddles a byte capacity)
                if i + 3 >= len {
                    char::from_u32(0x4e00 + r.below(0x100) as u32).unwrap()
                } else {
                    'a'
                }
            }
            _ => match r.below(4) {
                0 => char::from_u32(0x20 + r.below(0x5f) as u32).unwrap(),
                1 => char::from_u32(0xA1 + r.below(0x5e) as u32).unwrap(),
                2 => char::from_u32(0x400 + r.below(0x100) as u32).unwrap(),
                _ => char::from_u32(0x10000 + r.below(0x1000) as u32).unwrap(),
            },
        };
        s.push(c);
    }
    s
}

fn next_after32(x: f32, up: bool) -> f32 {
    if x.is_nan() || x.is_infinite() {
        return x;
    }
    if x == 0.0 {
        return if up { f32::from_bits(1) } else { -f32::from_bits(1) };
    }
    let b = x.to_bits();
    let nb = if (x > 0.0) == up { b + 1 } else { b - 1 };
    f32::from_bits(nb)
}
fn next_after64(x: f64, up: bool) -> f64 {
    if x.is_nan() || x.is_infinite() {
        return x;
    }
    if x == 0.0 {
        return if up { f64::from_bits(1) } else { -f64::from_bits(1) };
    }
    let b = x.to_bits();
    let nb = if (x > 0.0) == up { b + 1 } else { b - 1 };
    f64::from_bits(nb)
}

fn mutate_float(x: f64, is32: bool, op: u8, arg: u64, allow_nan: bool) -> (f64, OpClass) {
    let mut r = Rng::new(arg);
    let frac = r.f64_unit();
    match op % 16 {
        0 => (x + (frac - 0.5) * 1e-3, OpClass::FloatOffGrid),
        1 => (x * (1.0 + (frac - 0.5) * 1e-6) + 1e-9, OpClass::FloatOffGrid),
        2 => (if is32 { next_after32(x as f32, true) as f64 } else { next_after64(x, true) }, OpClass::FloatOffGrid),
        3 => (if is32 { next_after32(x as f32, false) as f64 } else { next_after64(x, false) }, OpClass::FloatOffGrid),
        4 => (-x, OpClass::FloatOffGrid),
        5 => (if arg % 2 == 0 { 0.0 } else { -0.0 }, OpClass::FloatOffGrid),
        6 => (if arg % 2 == 0 { 1e30 } else { -1e30 }, OpClass::FloatExtreme),
        7 => (
            if is32 {
                if arg % 2 == 0 { f32::MAX as f64 } else { f32::MIN as f64 }
            } else if arg % 2 == 0 {
                f64::MAX
            } else {
                f64::MIN
            },
            OpClass::FloatExtreme,
        ),
        8 => (if arg % 2 == 0 { f64::INFINITY } else { f64::NEG_INFINITY }, OpClass::FloatNonFinite),
        9 => {
            if allow_nan {
                (f64::NAN, OpClass::FloatNonFinite)
            } else {
                (x + frac, OpClass::FloatOffGrid)
            }
        }
        10 => {
            let e = (frac * 24.0 - 12.0).floor();
            let m = 1.0 + r.f64_unit() * 9.0;
            let s = if r.below(2) == 0 { 1.0 } else { -1.0 };
            (s * m * 10f64.powf(e), OpClass::FloatExtreme)
        }
        11 => ((x + frac * 10.0).round(), OpClass::FloatOffGrid),
        12 => (x + frac, OpClass::FloatOffGrid),
        13 => (x * 2.0 + 0.3, OpClass::FloatOffGrid),
        14 => (if is32 { f32::MIN_POSITIVE as f64 } else { f64::MIN_POSITIVE }, OpClass::FloatOffGrid),
        _ => (x - frac * 1e3, OpClass::FloatOffGrid),
    }
}

fn int_bounds(v: &Value) -> (i128, i128) {
    match v {
        Value::Bool(_) => (0, 1),
        Value::U8(_) => (0, u8::MAX as i128),
        Value::U16(_) => (0, u16::MAX as i128),
        Value::U32(_) => (0, u32::MAX as i128),
        Value::U64(_) => (0, u64::MAX as i128),
        Value::I8(_) => (i8::MIN as i128, i8::MAX as i128),
        Value::I16(_) => (i16::MIN as i128, i16::MAX as i128),
        Value::I32(_) => (i32::MIN as i128, i32::MAX as i128),
        Value::I64(_) => (i64::MIN as i128, i64::MAX as i128),
        _ => (0, 0),
    }
}
fn int_value(v: &Value) -> i128 {
    match v {
        Value::Bool(b) => *b as i128,
        Value::U8(x) => *x as i128,
        Value::U16(x) => *x as i128,
        Value::U32(x) => *x as i128,
        Value::U64(x) => *x as i128,
        Value::I8(x) => *x as i128,
        Value::I16(x) => *x as i128,
        Value::I32(x) => *x as i128,
        Value::I64(x) => *x as i128,
        _ => 0,
    }
}
fn set_int(v: &mut Value, x: i128) {
    let (lo, hi) = int_bounds(v);
    let x = x.clamp(lo, hi);
    let nv = match &*v {
        Value::Bool(_) => Value::Bool(x != 0),
        Value::U8(_) => Value::U8(x as u8),
        Value::U16(_) => Value::U16(x as u16),
        Value::U32(_) => Value::U32(x as u32),
        Value::U64(_) => Value::U64(x as u64),
        Value::I8(_) => Value::I8(x as i8),
        Value::I16(_) => Value::I16(x as i16),
        Value::I32(_) => Value::I32(x as i32),
        Value::I64(_) => Value::I64(x as i64),
        other => other.clone(),
    };
    *v = nv;
}

const CHARS: &[char] = &['C', 'P', 'W', 'S', 'L', 'X', 'I', 'Q', 'A', 'B', 'Z', 'D', 'c', '\0', ' ', 'é', 'Ω', '😀', '1'];

/// applies one op to the tree; returns the class of what was done
pub fn apply_op(tree: &mut Value, tc: &TypeCorpus, op: MutOp, allow_nan: bool) -> OpClass {
    let (sel, code, arg) = op;
    // mutable nodes: numbers, chars, strings, options, seqs (inside the message body)
    let mut all = Vec::new();
    tree.walk(&mut Vec::new(), &mut all);
    let cands: Vec<Path> = all
        .iter()
        .filter(|(_, n)| n.is_leaf_number() || matches!(n, Value::Char(_) | Value::Str(_) | Value::None | Value::Some(_) | Value::Seq(_)))
        .map(|(p, _)| p.clone())
        .collect();
    if cands.is_empty() {
        return OpClass::Noop;
    }
    // one selector in four addresses only the structural nodes (lists, options, strings): they are few among many leaves
    let structural: Vec<&Path> = all
        .iter()
        .filter(|(_, n)| matches!(n, Value::Str(_) | Value::None | Value::Some(_) | Value::Seq(_)))
        .map(|(p, _)| p)
        .collect();
    let path = if arg % 4 == 0 && !structural.is_empty() {
        structural[((sel as u64 * structural.len() as u64) >> 32) as usize].clone()
    } else {
        cands[((sel as u64 * cands.len() as u64) >> 32) as usize].clone()
    };
    let key = schema_key(&path);
    let node = tree.get_mut(&path).unwrap();
    let range = tc.num_ranges.get(&key).copied();
    match node {
        Value::F32(x) => {
            if let (Some((lo, hi)), true) = (range, code % 4 == 3 && code >= 128) {
                // uniform inside the observed range of that field (in range, off grid)
                *x = (lo + (hi - lo) * Rng::new(arg).f64_unit()) as f32;
                return OpClass::FloatInRange;
            }
            let (y, c) = mutate_float(*x as f64, true, code, arg, allow_nan);
            *x = y as f32;
            c
        }
        Value::F64(x) => {
            if let (Some((lo, hi)), true) = (range, code % 4 == 3 && code >= 128) {
                *x = lo + (hi - lo) * Rng::new(arg).f64_unit();
                return OpClass::FloatInRange;
            }
            let (y, c) = mutate_float(*x, false, code, arg, allow_nan);
            *x = y;
            c
        }
        Value::Char(c) => {
            *c = CHARS[(arg % CHARS.len() as u64) as usize];
            OpClass::CharChange
        }
        Value::Str(s) => {
            *s = gen_text(arg);
            OpClass::Text
        }
        Value::None => {
            if let Some(t) = tc.opt_templates.get(&key) {
                *node = Value::Some(Box::new(t.clone()));
            } else {
                *node = Value::Some(Box::new(Value::F64((arg % 1000) as f64 * 0.25)));
            }
            OpClass::OptionToggle
        }
        Value::Some(_) => {
            *node = Value::None;
            OpClass::OptionToggle
        }
        Value::Seq(items) => {
            let tpl = tc.seq_templates.get(&key);
            let n = items.len();
            match code % 10 {
                0 if n >= 2 => {
                    let i = (arg % n as u64) as usize;
                    let j = ((arg >> 16) % n as u64) as usize;
                    items.swap(i, j);
                    OpClass::ListPermute
                }
                1 if n >= 2 => {
                    items.reverse();
                    OpClass::ListPermute
                }
                2 if n >= 2 => {
                    let k = (arg % n as u64) as usize;
                    items.rotate_left(k);
                    OpClass::ListPermute
                }
                3 if n >= 1 => {
                    let i = (arg % n as u64) as usize;
                    let e = items[i].clone();
                    items.push(e);
                    OpClass::ListGrow
                }
                4 if n >= 1 => {
                    let i = (arg % n as u64) as usize;
                    items.remove(i);
                    OpClass::ListShrink
                }
                5 if n >= 1 => {
                    let k = (arg % n as u64) as usize;
                    items.truncate(k);
                    OpClass::ListShrink
                }
                6 => {
                    items.clear();
                    OpClass::ListShrink
                }
                7 | 8 => {
                    if let Some((t, cap)) = tpl {
                        let target = if code % 10 == 7 { *cap } else { cap.saturating_sub(1 + (arg % 3) as usize) };
                        let mut i = 0usize;
                        while items.len() < target {
                            let e = if n > 0 { items[i % n].clone() } else { t.clone() };
                            items.push(e);
                            i += 1;
                        }
                        OpClass::ListFill
                    } else {
                        OpClass::Noop
                    }
                }
                _ => {
                    if let Some((t, _)) = tpl {
                        items.push(t.clone());
                        OpClass::ListGrow
                    } else {
                        OpClass::Noop
                    }
                }
            }
        }
        other if other.is_leaf_number() => {
            let (lo, hi) = int_bounds(other);
            let cur = int_value(other);
            if let (Some((rlo, rhi)), true) = (range, code >= 160) {
                // inside / at the edge of the observed range of that field (field maximum, not type maximum)
                let rlo = rlo as i128;
                let rhi = rhi as i128;
                let nv = match code % 5 {
                    0 => rhi,
                    1 => rhi - 1 - (arg % 3) as i128,
                    2 => rhi + 1,
                    3 => rlo,
                    _ => rlo + (arg as i128 % (rhi - rlo + 1).max(1)),
                };
                set_int(other, nv);
                return OpClass::IntInRange;
            }
            let (nv, class) = match code % 10 {
                0 => (0, OpClass::IntBoundary),
                1 => (1, OpClass::IntBoundary),
                2 => (lo, OpClass::IntBoundary),
                3 => (hi, OpClass::IntBoundary),
                4 => (cur + 1, OpClass::IntRandom),
                5 => (cur - 1, OpClass::IntRandom),
                6 => (lo + (arg as i128 % (hi - lo + 1)), OpClass::IntRandom),
                7 => ((arg % 70) as i128, OpClass::IntRandom),
                8 => (hi - (arg % 8) as i128, OpClass::IntBoundary),
                _ => (lo + (arg % 8) as i128, OpClass::IntBoundary),
            };
            set_int(other, nv);
            class
        }
        _ => OpClass::Noop,
    }
}

#[derive(Clone, Debug)]
pub struct Recipe {
    pub type_index: u16,
    pub base_index: u16,
    pub ops: Vec<MutOp>,
}

pub struct Built {
    pub number: u16,
    pub tree: Value,
    pub classes: Vec<OpClass>,
    pub message: Option<Message>,
    pub changed: bool,
}

pub fn run_recipe(corpus: &Corpus, r: &Recipe, allow_nan: bool) -> Built {
    let tc = &corpus.types[((r.type_index as usize * corpus.types.len()) >> 16).min(corpus.types.len() - 1)];
    let base = &tc.bases[(r.base_index as usize * tc.bases.len()) >> 16];
    let mut tree = base.clone();
    let mut classes = Vec::new();
    for op in &r.ops {
        classes.push(apply_op(&mut tree, tc, *op, allow_nan));
    }
    let changed = tree != *base || tree.has_nan();
    let message = value_to_message(&tree).ok();
    Built { number: tc.number, tree, classes, message, changed }
}

pub fn recipe_strategy(max_ops: usize) -> impl proptest::strategy::Strategy<Value = Recipe> {
    use proptest::prelude::*;
    (any::<u16>(), any::<u16>(), prop::collection::vec((any::<u32>(), any::<u8>(), any::<u64>()), 0..=max_ops)).prop_map(|(type_index, base_index, ops)| Recipe { type_index, base_index, ops })
}

static CORPUS: std::sync::OnceLock<(u64, Corpus)> = std::sync::OnceLock::new();
/// process-wide corpus (built once per run from VERIF_SEED)
pub fn corpus(seed: u64) -> &'static Corpus {
    let c = CORPUS.get_or_init(|| (seed, Corpus::build(seed, 10)));
    assert_eq!(c.0, seed, "corpus requested with two different seeds in one process");
    &c.1
}
/// the corpus after it has been initialised by `corpus(seed)`
pub fn corpus_get() -> &'static Corpus {
    &CORPUS.get().expect("corpus not initialised").1
}

/// Value of an MSM message with the given rows (data fields taken from the learned row templates).
/// sats: satellite ids in caller order; cells: (satellite, (band, attribute)) in caller order.
pub fn msm_value(tc: &TypeCorpus, sats: &[u8], cells: &[(u8, (u8, char))]) -> Option<Value> {
    let mut v = tc.bases.first()?.clone();
    let sat_key = schema_key(&msm::msm_list_path("satellite_data"));
    let sig_key = schema_key(&msm::msm_list_path("signal_data"));
    let sat_tpl = &tc.seq_templates.get(&sat_key)?.0;
    let sig_tpl = &tc.seq_templates.get(&sig_key)?.0;
    let mut srows = Vec::new();
    for s in sats {
        let mut r = sat_tpl.clone();
        msm::set_row_sat(&mut r, *s);
        srows.push(r);
    }
    let mut crows = Vec::new();
    for (s, (b, a)) in cells {
        let mut r = sig_tpl.clone();
        msm::set_row_sat(&mut r, *s);
        msm::set_row_sig(&mut r, *b, *a);
        crows.push(r);
    }
    *msm::msm_list_mut(&mut v, "satellite_data")? = srows;
    *msm::msm_list_mut(&mut v, "signal_data")? = crows;
    Some(v)
}

pub fn number_of_variant_name(name: &str) -> Option<u16> {
    name.strip_prefix("Msg").and_then(|n| n.parse().ok())
}


/// string-bearing messages constructed through the typed public API (`From<&str>`, not the deserialiser) from text of
/// every class: over-long sources, multi-byte characters straddling the capacity, NUL, tokens
pub fn typed_string_message(rng: &mut Rng, i: u64) -> Message {
    use rtcm_rs::msg::{Msg1007T, Msg1008T, Msg1029T, Msg1033T};
    use rtcm_rs::util::{ArrayString, Df88591String};
    let mut txt = |rng: &mut Rng| -> String {
        match rng.below(4) {
            0 => {
                let cap = [7usize, 31, 40, 255, 400][rng.below(5) as usize];
                gen_token_text(rng, cap)
            }
            1 => {
                // ASCII run of a length around the capacities followed by multi-byte characters (cut inside a character)
                let n = [250usize, 251, 252, 253, 254, 255, 256, 28, 29, 30, 31, 126, 127][rng.below(13) as usize];
                let mut s: String = "a".repeat(n.saturating_sub(rng.below(3) as usize));
                for _ in 0..(1 + rng.below(4)) {
                    s.push(char::from_u32([0xE9u32, 0x20AC, 0x4E2D, 0x1F600][rng.below(4) as usize]).unwrap());
                }
                s
            }
            _ => gen_text(rng.next_u64()),
        }
    };
    let d = |s: &str| Df88591String::<31>::from(s);
    match i % 4 {
        0 => Message::Msg1007(Msg1007T { reference_station_id: 5, antenna_descriptor_str: d(&txt(rng)), antenna_setup_id: 1 }),
        1 => Message::Msg1008(Msg1008T { reference_station_id: 5, antenna_descriptor_str: d(&txt(rng)), antenna_setup_id: 1, antenna_serial_number_str: d(&txt(rng)) }),
        2 => Message::Msg1033(Msg1033T {
            reference_station_id: 9,
            antenna_descriptor_str: d(&txt(rng)),
            antenna_setup_id: 0,
            antenna_serial_number_str: d(&txt(rng)),
            receiver_type_descriptor_str: d(&txt(rng)),
            receiver_firmware_version_str: d(&txt(rng)),
            receiver_serial_number_str: d(&txt(rng)),
        }),
        _ => Message::Msg1029(Msg1029T { reference_station_id: 1, modified_julian_day_number: 2, seconds_of_day_s: 3, text_str: ArrayString::<255>::from(txt(rng).as_str()) }),
    }
}

/// "The builder was used before": build `d` on it; when `d` is a MsgNotSupported whose number is a supported one, it stands
/// for a call of the crate's own `build_generated_message` (feature test_gen) for that number — the other public way to use
/// a builder. The outcome of this first use is ignored.
pub fn use_builder_before(b: &mut MessageBuilder, d: &Message) {
    if let Message::MsgNotSupported(t) = d {
        if registry::is_supported(t.message_number) {
            let n = t.message_number;
            let _ = std::panic::catch_unwind(std::panic::AssertUnwindSafe(|| {
                let mut vg = rtcm_rs::val_gen::ValGen::new(
                    RandAdapter { rng: Rng::new(n as u64 * 3 + 1), max_per_1024: 0 },
                    RandAdapter { rng: Rng::new(n as u64 * 5 + 2), max_per_1024: 0 },
                    RandAdapter { rng: Rng::new(n as u64 * 7 + 3), max_per_1024: 0 },
                );
                let _ = b.build_generated_message(&mut vg, n).map(|f| f.len());
            }));
            return;
        }
    }
    let _ = b.build_message(d).map(|f| f.len());
}
