//! Small deterministic PRNG (xoshiro256** seeded through SplitMix64). Every enumerator/sampler in the harness
//! derives its stream from VERIF_SEED plus a fixed label, so a run is a pure function of (tree, seed, tier).
#[derive(Clone, Debug)]
pub struct Rng {
    s: [u64; 4],
}

pub fn splitmix(x: &mut u64) -> u64 {
    *x = x.wrapping_add(0x9E3779B97F4A7C15);
    let mut z = *x;
    z = (z ^ (z >> 30)).wrapping_mul(0xBF58476D1CE4E5B9);
    z = (z ^ (z >> 27)).wrapping_mul(0x94D049BB133111EB);
    z ^ (z >> 31)
}

pub fn mix(a: u64, b: u64) -> u64 {
    let mut x = a ^ b.wrapping_mul(0xD6E8FEB86659FD93).rotate_left(23);
    splitmix(&mut x)
}

pub fn label_hash(label: &str) -> u64 {
    // FNV-1a
    let mut h: u64 = 0xcbf29ce484222325;
    for b in label.bytes() {
        h ^= b as u64;
        h = h.wrapping_mul(0x100000001b3);
    }
    h
}

impl Rng {
    pub fn new(seed: u64) -> Self {
        let mut x = seed;
        let s = [splitmix(&mut x), splitmix(&mut x), splitmix(&mut x), splitmix(&mut x)];
        Rng { s }
    }
    pub fn derive(seed: u64, label: &str, idx: u64) -> Self {
        Rng::new(mix(mix(seed, label_hash(label)), idx))
    }
    #[inline]
    pub fn next_u64(&mut self) -> u64 {
        let r = self.s[1].wrapping_mul(5).rotate_left(7).wrapping_mul(9);
        let t = self.s[1] << 17;
        self.s[2] ^= self.s[0];
        self.s[3] ^= self.s[1];
        self.s[1] ^= self.s[2];
        self.s[0] ^= self.s[3];
        self.s[2] ^= t;
        self.s[3] = self.s[3].rotate_left(45);
        r
    }
    #[inline]
    pub fn next_u32(&mut self) -> u32 {
        (self.next_u64() >> 32) as u32
    }
    /// uniform in 0..n (n > 0)
    #[inline]
    pub fn below(&mut self, n: u64) -> u64 {
        debug_assert!(n > 0);
        ((self.next_u64() as u128 * n as u128) >> 64) as u64
    }
    #[inline]
    pub fn range(&mut self, lo: u64, hi_incl: u64) -> u64 {
        lo + self.below(hi_incl - lo + 1)
    }
    #[inline]
    pub fn chance(&mut self, num: u64, den: u64) -> bool {
        self.below(den) < num
    }
    pub fn f64_unit(&mut self) -> f64 {
        (self.next_u64() >> 11) as f64 / (1u64 << 53) as f64
    }
    pub fn fill(&mut self, buf: &mut [u8]) {
        for ch in buf.chunks_mut(8) {
            let v = self.next_u64().to_le_bytes();
            ch.copy_from_slice(&v[..ch.len()]);
        }
    }
    pub fn bytes(&mut self, n: usize) -> Vec<u8> {
        let mut v = vec![0u8; n];
        self.fill(&mut v);
        v
    }
    /// random bytes, length uniform in lo..lo+span (span>0)
    pub fn bytes_len(&mut self, lo: usize, span: usize) -> Vec<u8> {
        let n = lo + self.below(span as u64) as usize;
        self.bytes(n)
    }
    pub fn pick<'a, T>(&mut self, xs: &'a [T]) -> &'a T {
        &xs[self.below(xs.len() as u64) as usize]
    }
    pub fn shuffle<T>(&mut self, xs: &mut [T]) {
        for i in (1..xs.len()).rev() {
            let j = self.below(i as u64 + 1) as usize;
            xs.swap(i, j);
        }
    }
}

/// rand 0.8 adapter so that the crate's own `ValGen` (feature test_gen) can be driven deterministically.
pub struct RandAdapter {
    pub rng: Rng,
    /// probability numerator (out of 1024) of returning u64::MAX from next_u64 — fires the generator's
    /// "invalid value / at capacity" branches.
    pub max_per_1024: u64,
}
impl rand::RngCore for RandAdapter {
    fn next_u32(&mut self) -> u32 {
        self.rng.next_u32()
    }
    fn next_u64(&mut self) -> u64 {
        if self.max_per_1024 > 0 && self.rng.below(1024) < self.max_per_1024 {
            u64::MAX
        } else {
            self.rng.next_u64()
        }
    }
    fn fill_bytes(&mut self, dest: &mut [u8]) {
        self.rng.fill(dest)
    }
    fn try_fill_bytes(&mut self, dest: &mut [u8]) -> Result<(), rand::Error> {
        self.rng.fill(dest);
        Ok(())
    }
}
